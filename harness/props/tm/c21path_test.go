package tm

// C21, second half: "gates every use" on a REAL two-chain path. Two chains with a v1
// UNORDERED channel (clients #0) and a v2 client pair (clients #1); any of the four
// tendermint clients may be frozen (client state written with FrozenHeight set), unfrozen,
// driven to within seconds of its expiry, expired, or recovered from a fresh substitute.
// Packet sends (v1 keeper send, v2 MsgSendPacket), receives, acknowledgements, client
// updates and every step of a connection and a channel handshake (init/try/ack/confirm/
// close-init/close-confirm) are attempted through them with honest proofs.
// Oracle: a use that succeeds happened while the model status of the gating client was
// Active; status queries equal the model after every step.

import (
	"fmt"
	"testing"
	"time"

	"pgregory.net/rapid"

	sdk "github.com/cosmos/cosmos-sdk/types"

	clienttypes "github.com/cosmos/ibc-go/v11/modules/core/02-client/types"
	connectiontypes "github.com/cosmos/ibc-go/v11/modules/core/03-connection/types"
	channeltypes "github.com/cosmos/ibc-go/v11/modules/core/04-channel/types"
	channeltypesv2 "github.com/cosmos/ibc-go/v11/modules/core/04-channel/v2/types"
	commitmenttypes "github.com/cosmos/ibc-go/v11/modules/core/23-commitment/types"
	host "github.com/cosmos/ibc-go/v11/modules/core/24-host"
	"github.com/cosmos/ibc-go/v11/modules/core/exported"
	ibctm "github.com/cosmos/ibc-go/v11/modules/light-clients/07-tendermint"
	ibctesting "github.com/cosmos/ibc-go/v11/testing"
	"github.com/cosmos/ibc-go/v11/testing/mock"

	"github.com/cosmos/ibc-go/v11/modules/apps/callbacks/verifx/sim"
	"github.com/cosmos/ibc-go/v11/modules/apps/callbacks/verifx/tmsim"
	"github.com/cosmos/ibc-go/v11/modules/apps/callbacks/verifx/vx"
)

type POp struct {
	K string `json:"k"`           // send|relay|update|freeze|unfreeze|expire|revive|hs|block
	C int    `json:"c,omitempty"` // side 0/1
	L int    `json:"l,omitempty"` // link 0 (v1) / 1 (v2)
	P int    `json:"p,omitempty"` // packet selector
	D int64  `json:"d,omitempty"` // expire: seconds relative to the expiry instant
}

type PCase struct {
	Ops []POp `json:"ops"`
}

type pPkt struct {
	p            *sim.Pkt
	recvd, acked bool
}

type penv struct {
	t      rapid.TB
	rec    *vx.Case
	w      *sim.World
	links  [2]*sim.Link
	drv    [2]*tmsim.Driver
	frozen map[string]bool // "side/clientID"
	pkts   []*pPkt
	// handshake progress: a connection handshake machine (new connections over the clients
	// of link 0) and a channel handshake machine over link 0's OPEN connection
	connStep, chanStep   int
	connsDone, chansDone int
	connA, connB         string
	chanA, chanB         string
	usesNonActive        int
	okBy, failBy         map[string]int
}

func (e *penv) key(side int, client string) string { return fmt.Sprintf("%d/%s", side, client) }

// status prescribed by the property statement for a client on `side` at the current clock
func (e *penv) modelStatus(side int, client string) exported.Status {
	if e.frozen[e.key(side, client)] {
		return exported.Frozen
	}
	cs := e.drv[side].ClientState(client)
	if cs == nil {
		vx.Harnessf("no client state %s on side %d", client, side)
	}
	rs := e.drv[side].ReadRaw(client)
	bz, ok := rs.Cons[latestOf(cs)]
	if !ok {
		return exported.Expired
	}
	cons, ok := e.drv[side].DecodeCons(bz)
	if !ok {
		vx.Harnessf("undecodable consensus state")
	}
	if e.drv[side].Now().UnixNano() >= cons.Timestamp.UnixNano()+int64(cs.TrustingPeriod) {
		return exported.Expired
	}
	return exported.Active
}

// gate records one use: `before` is the model status of the gating client at the time of
// the attempt.
func (e *penv) gate(use string, before exported.Status, ok bool, detail string) {
	if before != exported.Active {
		e.usesNonActive++
		e.rec.Class("%s-while-%s", use, before)
		if ok {
			vx.Violatef(e.t, e.rec, "C21", "use-through-nonactive-"+use, "%s succeeded through a client whose status is %s; %s", use, before, detail)
		}
	}
	if ok {
		e.okBy[use]++
	} else {
		e.failBy[use]++
	}
}

func (e *penv) clientOf(side, link int) string { return e.links[link].Client(side) }

// update submits an honest header of the other chain to the client on `side`.
func (e *penv) update(side int, client string) bool {
	before := e.modelStatus(side, client)
	res := e.w.UpdateClient(side, client, 1-side, 0)
	e.gate("update", before, res.OK, fmt.Sprintf("side %d client %s", side, client))
	return res.OK
}

func (e *penv) latestHeight(side int, client string) uint64 {
	cs := e.drv[side].ClientState(client)
	return cs.LatestHeight.RevisionHeight
}

// deliverGated delivers msg on `side`; the use is gated by `client` on that side.
func (e *penv) deliverGated(use string, side int, client string, build func(h uint64) sdkMsg) sim.TxResult {
	e.update(side, client)
	h := e.latestHeight(side, client)
	msg := build(h)
	before := e.modelStatus(side, client)
	res := e.w.Deliver(side, 0, msg)
	e.gate(use, before, res.OK, fmt.Sprintf("side %d client %s proof height %d err=%v", side, client, h, trunc(res.Err)))
	return res
}

type sdkMsg = sdk.Msg

func trunc(err error) string {
	if err == nil {
		return ""
	}
	s := err.Error()
	if len(s) > 160 {
		s = s[:160]
	}
	return s
}

func (e *penv) checkStatuses(where string) {
	for side := 0; side < 2; side++ {
		for l := 0; l < 2; l++ {
			c := e.clientOf(side, l)
			got, want := e.drv[side].Status(c), e.modelStatus(side, c)
			if got != want {
				vx.Violatef(e.t, e.rec, "C21", "status-mismatch", "side %d client %s: status %s, model %s; %s", side, c, got, want, where)
			}
			e.rec.Class("path-status-%s", got)
		}
	}
}

func (e *penv) setFrozen(side int, client string, frozen bool) {
	d := e.drv[side]
	cs := d.ClientState(client)
	if frozen {
		cs.FrozenHeight = ibctm.FrozenHeight
	} else {
		cs.FrozenHeight = clienttypes.ZeroHeight()
	}
	e.w.App(side).IBCKeeper.ClientKeeper.SetClientState(e.w.Ctx(side), client, cs)
	e.w.Block(side, 1)
	e.frozen[e.key(side, client)] = frozen
}

func (e *penv) exec(i int, op POp) {
	side, l := op.C&1, op.L&1
	client := e.clientOf(side, l)
	switch op.K {
	case "block":
		e.w.Block(side, 1)
	case "update":
		e.update(side, client)
	case "freeze":
		// bring the client up to date first, so that proofs of everything committed so far
		// would verify if it were not for the status gate
		e.update(side, client)
		e.setFrozen(side, client, true)
	case "unfreeze":
		e.setFrozen(side, client, false)
	case "expire":
		e.update(side, client) // see "freeze"
		d := e.drv[side]
		cs := d.ClientState(client)
		cons, ok := d.ConsensusState(client, cs.LatestHeight)
		if !ok {
			return
		}
		target := cons.Timestamp.Add(cs.TrustingPeriod).Add(time.Duration(op.D) * time.Second)
		if target.After(d.Now()) {
			d.SetNow(target)
			e.rec.Class("expire%+d", op.D)
		}
	case "revive":
		// recover from a fresh substitute tracking the other chain
		cp := e.w.Chains[1-side]
		e.w.Block(1-side, 1)
		height, _ := cp.LatestCommittedHeader.GetHeight().(clienttypes.Height)
		cs := ibctm.NewClientState(cp.ChainID, ibctm.DefaultTrustLevel, ibctesting.TrustingPeriod, ibctesting.UnbondingPeriod, ibctesting.MaxClockDrift, height, commitmenttypes.GetSDKSpecs(), ibctesting.UpgradePath)
		msg, err := clienttypes.NewMsgCreateClient(cs, cp.LatestCommittedHeader.ConsensusState(), e.w.Addr(side, 0).String())
		if err != nil {
			vx.Harnessf("NewMsgCreateClient: %v", err)
		}
		res := e.w.Deliver(side, 0, msg)
		if !res.OK {
			return
		}
		sub, err := ibctesting.ParseClientIDFromEvents(res.Events)
		if err != nil {
			vx.Harnessf("no client id: %v", err)
		}
		if e.drv[side].Recover(client, sub) == nil {
			e.frozen[e.key(side, client)] = false
			e.rec.Class("revived")
		}
	case "send":
		before := e.modelStatus(side, client)
		lk := e.links[l]
		if l == 0 {
			p, err := e.w.SendV1(lk, side, clienttypes.NewHeight(1, 100000), 0, sim.Script{N: i, Out: "ok"}.Bytes())
			e.gate("send-v1", before, err == nil, fmt.Sprintf("side %d err=%v", side, trunc(err)))
			if err == nil {
				e.pkts = append(e.pkts, &pPkt{p: p})
			}
		} else {
			app := "A"
			p, res := e.w.SendV2(lk, side, 0, uint64(e.drv[side].Now().Unix())+3600, sim.MockPayload(app, sim.Script{N: i, Out: "ok"}))
			e.gate("send-v2", before, res.OK, fmt.Sprintf("side %d err=%v", side, trunc(res.Err)))
			if res.OK {
				e.pkts = append(e.pkts, &pPkt{p: p})
			}
		}
	case "relay":
		if len(e.pkts) == 0 {
			return
		}
		pp := e.pkts[op.P%len(e.pkts)]
		p := pp.p
		lk := e.w.Links[p.Link]
		switch {
		case !pp.recvd:
			ds := 1 - p.Dir
			res := e.deliverGated("recv", ds, lk.Client(ds), func(h uint64) sdkMsg { return e.w.BuildRecv(p, h, 0) })
			if res.OK {
				pp.recvd = true
				e.w.NoteAck(p, res)
			}
		case !pp.acked && (p.Ack1 != nil || p.Ack2 != nil):
			ss := p.Dir
			var a2 channeltypesv2.Acknowledgement
			if p.Ack2 != nil {
				a2 = *p.Ack2
			}
			res := e.deliverGated("ack", ss, lk.Client(ss), func(h uint64) sdkMsg { return e.w.BuildAck(p, p.Ack1, a2, h, 0) })
			if res.OK {
				pp.acked = true
			}
		}
	case "hs":
		if op.P%2 == 0 {
			e.connStepDo()
		} else {
			e.chanStepDo()
		}
	default:
		vx.Harnessf("unknown op %q", op.K)
	}
}

// connStepDo attempts the next step of a connection handshake over the clients of link 0
// (A-side steps are gated by A's client, B-side steps by B's client); chanStepDo does the
// same for channel handshakes (open, close, open again ...) over link 0's OPEN connection.
func (e *penv) connStepDo() {
	cA, cB := e.clientOf(0, 0), e.clientOf(1, 0)
	prefix := commitmenttypes.NewMerklePrefix([]byte("ibc"))
	signer := func(side int) string { return e.w.Addr(side, 0).String() }
	switch e.connStep {
	case 0:
		before := e.modelStatus(0, cA)
		res := e.w.Deliver(0, 0, connectiontypes.NewMsgConnectionOpenInit(cA, cB, prefix, nil, 0, signer(0)))
		e.gate("conn-init", before, res.OK, trunc(res.Err))
		if res.OK {
			id, err := ibctesting.ParseConnectionIDFromEvents(res.Events)
			if err != nil {
				vx.Harnessf("no connection id: %v", err)
			}
			e.connA = id
			e.connStep++
		}
	case 1:
		res := e.deliverGated("conn-try", 1, cB, func(h uint64) sdkMsg {
			proof, ph := e.w.Proof(0, host.ConnectionKey(e.connA), h)
			return connectiontypes.NewMsgConnectionOpenTry(cB, e.connA, cA, prefix, connectiontypes.GetCompatibleVersions(), 0, proof, ph, signer(1))
		})
		if res.OK {
			id, err := ibctesting.ParseConnectionIDFromEvents(res.Events)
			if err != nil {
				vx.Harnessf("no connection id: %v", err)
			}
			e.connB = id
			e.connStep++
		}
	case 2:
		if e.deliverGated("conn-ack", 0, cA, func(h uint64) sdkMsg {
			proof, ph := e.w.Proof(1, host.ConnectionKey(e.connB), h)
			return connectiontypes.NewMsgConnectionOpenAck(e.connA, e.connB, proof, ph, ibctesting.ConnectionVersion, signer(0))
		}).OK {
			e.connStep++
		}
	case 3:
		if e.deliverGated("conn-confirm", 1, cB, func(h uint64) sdkMsg {
			proof, ph := e.w.Proof(0, host.ConnectionKey(e.connA), h)
			return connectiontypes.NewMsgConnectionOpenConfirm(e.connB, proof, ph, signer(1))
		}).OK {
			e.connStep = 0
			e.connsDone++
		}
	}
}

func (e *penv) chanStepDo() {
	cA, cB := e.clientOf(0, 0), e.clientOf(1, 0)
	connA, connB := e.links[0].Path.EndpointA.ConnectionID, e.links[0].Path.EndpointB.ConnectionID
	signer := func(side int) string { return e.w.Addr(side, 0).String() }
	switch e.chanStep {
	case 0:
		before := e.modelStatus(0, cA)
		res := e.w.Deliver(0, 0, channeltypes.NewMsgChannelOpenInit(mock.PortID, mock.Version, channeltypes.UNORDERED, []string{connA}, mock.PortID, signer(0)))
		e.gate("chan-init", before, res.OK, trunc(res.Err))
		if res.OK {
			id, err := ibctesting.ParseChannelIDFromEvents(res.Events)
			if err != nil {
				vx.Harnessf("no channel id: %v", err)
			}
			e.chanA = id
			e.chanStep++
		}
	case 1:
		res := e.deliverGated("chan-try", 1, cB, func(h uint64) sdkMsg {
			proof, ph := e.w.Proof(0, host.ChannelKey(mock.PortID, e.chanA), h)
			return channeltypes.NewMsgChannelOpenTry(mock.PortID, mock.Version, channeltypes.UNORDERED, []string{connB}, mock.PortID, e.chanA, mock.Version, proof, ph, signer(1))
		})
		if res.OK {
			id, err := ibctesting.ParseChannelIDFromEvents(res.Events)
			if err != nil {
				vx.Harnessf("no channel id: %v", err)
			}
			e.chanB = id
			e.chanStep++
		}
	case 2:
		if e.deliverGated("chan-ack", 0, cA, func(h uint64) sdkMsg {
			proof, ph := e.w.Proof(1, host.ChannelKey(mock.PortID, e.chanB), h)
			return channeltypes.NewMsgChannelOpenAck(mock.PortID, e.chanA, e.chanB, mock.Version, proof, ph, signer(0))
		}).OK {
			e.chanStep++
		}
	case 3:
		if e.deliverGated("chan-confirm", 1, cB, func(h uint64) sdkMsg {
			proof, ph := e.w.Proof(0, host.ChannelKey(mock.PortID, e.chanA), h)
			return channeltypes.NewMsgChannelOpenConfirm(mock.PortID, e.chanB, proof, ph, signer(1))
		}).OK {
			e.chanStep++
		}
	case 4:
		before := e.modelStatus(0, cA)
		res := e.w.Deliver(0, 0, channeltypes.NewMsgChannelCloseInit(mock.PortID, e.chanA, signer(0)))
		e.gate("chan-close-init", before, res.OK, trunc(res.Err))
		if res.OK {
			e.chanStep++
		}
	case 5:
		if e.deliverGated("chan-close-confirm", 1, cB, func(h uint64) sdkMsg {
			proof, ph := e.w.Proof(0, host.ChannelKey(mock.PortID, e.chanA), h)
			return channeltypes.NewMsgChannelCloseConfirm(mock.PortID, e.chanB, proof, ph, signer(1))
		}).OK {
			e.chanStep = 0 // open another channel over the same connection
			e.chansDone++
		}
	}
}

func runC21Path(outer *testing.T) func(t rapid.TB, c PCase, rec *vx.Case) {
	return func(t rapid.TB, c PCase, rec *vx.Case) {
		e := &penv{t: t, rec: rec, frozen: map[string]bool{}, okBy: map[string]int{}, failBy: map[string]int{}}
		e.w = sim.NewWorld(outer, 2, nil)
		e.links[0] = e.w.AddLink(sim.V1Unordered, 0, 1, nil)
		e.links[1] = e.w.AddLink(sim.V2Clients, 0, 1, nil)
		e.drv[0], e.drv[1] = tmsim.New(e.w, 0, nil), tmsim.New(e.w, 1, nil)
		e.checkStatuses("after setup")
		for i, op := range c.Ops {
			e.exec(i, op)
			e.checkStatuses(fmt.Sprintf("after step %d %+v", i, op))
		}
		for k, v := range e.okBy {
			rec.Add("ok_"+k, int64(v))
		}
		for k, v := range e.failBy {
			rec.Add("fail_"+k, int64(v))
		}
		rec.Add("uses_while_not_active", int64(e.usesNonActive))
		rec.Add("handshake_steps_done", int64(e.connsDone*4+e.connStep+e.chansDone*6+e.chanStep))
		rec.NonTrivialIf(e.usesNonActive >= 1)
	}
}

func genPCase(t *rapid.T) PCase {
	w := weights{"send": 5, "relay": 6, "update": 2, "freeze": 2, "unfreeze": 2, "expire": 2, "revive": 2, "hs": 8, "block": 1}
	n := rapid.IntRange(6, 28).Draw(t, "nops")
	var c PCase
	for i := 0; i < n; i++ {
		op := POp{K: pick(t, w, "kind")}
		op.C = rapid.IntRange(0, 1).Draw(t, "side")
		op.L = rapid.IntRange(0, 1).Draw(t, "link")
		switch op.K {
		case "relay":
			op.P = rapid.IntRange(0, 7).Draw(t, "pkt")
		case "hs":
			op.P = rapid.IntRange(0, 1).Draw(t, "machine")
		case "expire":
			op.D = rapid.SampledFrom([]int64{-20, -1, 0, 1, 60}).Draw(t, "d")
		case "freeze", "unfreeze", "revive":
			if rapid.IntRange(0, 2).Draw(t, "hsclient") > 0 {
				op.L = 0 // the handshakes and v1 packets run over the clients of link 0
			}
		}
		c.Ops = append(c.Ops, op)
	}
	return c
}

func TestC21Path(t *testing.T) {
	vx.Check(t, vx.Prop[PCase]{
		ID:          "C21",
		Rule:        "real two-chain path (v1 unordered channel + v2 client pair): freeze/unfreeze (client state written with FrozenHeight), expiry around latestTs+trustingPeriod, recovery from a fresh substitute, interleaved with v1/v2 sends, receives, acks, client updates and every connection/channel handshake step with honest proofs; non-trivial = a use attempted through a client whose model status is not Active; distinct by full history",
		MinNTFrac:   0.4,
		Assumptions: []string{"freezing/unfreezing a client of the real path is state injection through ClientKeeper.SetClientState", "recovery = ClientKeeper.RecoverClient (MsgRecoverClient after its authority check)", "packet timeouts are not attempted"},
		Gen:         genPCase,
		Run:         runC21Path(t),
	})
}
