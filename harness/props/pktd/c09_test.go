package pktd

import (
	"fmt"
	"testing"

	"pgregory.net/rapid"

	sdk "github.com/cosmos/cosmos-sdk/types"

	clienttypes "github.com/cosmos/ibc-go/v11/modules/core/02-client/types"
	channeltypes "github.com/cosmos/ibc-go/v11/modules/core/04-channel/types"
	host "github.com/cosmos/ibc-go/v11/modules/core/24-host"
	"github.com/cosmos/ibc-go/v11/modules/core/exported"

	"github.com/cosmos/ibc-go/v11/modules/apps/callbacks/verifx/sim"
	"github.com/cosmos/ibc-go/v11/modules/apps/callbacks/verifx/vx"
)

// C09 (scripted application): when the destination application returns an error
// acknowledgement none of its state changes persist while the receipt (UNORDERED) or the
// nextSequenceRecv bump (ORDERED) and the error acknowledgement are written; a success or
// async result keeps every change; the outcome of a failing receive does not depend on how
// much the application wrote before failing.
//
// Every failing packet is first received on discarded cache contexts once per failure point
// (after 0, 1, .., k effects: fault enumeration over one and the same packet, proof and
// pre-state, through the real core message server) and then delivered for real through the
// full transaction path with the failure point the case prescribes.

type c09Pkt struct {
	L int     `json:"l"` // 0: UNORDERED link, 1: ORDERED link
	D int     `json:"d"` // direction
	S xScript `json:"s"`
}

type c09Case struct {
	Pkts []c09Pkt `json:"pkts"`
}

var c09Keys = []string{"a", "b", "c", "d"}

func genEffects(t *rapid.T, maxK int) []xEffect {
	ks := []int{0}
	for i := 1; i <= maxK; i++ {
		ks = append(ks, i, i)
	}
	k := rapid.SampledFrom(ks).Draw(t, "k")
	var es []xEffect
	for i := 0; i < k; i++ {
		switch rapid.IntRange(0, 5).Draw(t, "ekind") {
		case 0, 1, 2:
			es = append(es, xEffect{K: "set", Key: rapid.SampledFrom(c09Keys).Draw(t, "key")})
		case 3:
			es = append(es, xEffect{K: "del", Key: rapid.SampledFrom(c09Keys).Draw(t, "key")})
		default:
			es = append(es, xEffect{K: "bank", Amt: int64(rapid.IntRange(1, 1000).Draw(t, "amt"))})
		}
	}
	return es
}

func genC09(t *rapid.T) c09Case {
	var c c09Case
	n := rapid.IntRange(3, 7).Draw(t, "npkts")
	for i := 0; i < n; i++ {
		s := xScript{N: i + 1, E: genEffects(t, 5)}
		s.Out = rapid.SampledFrom([]string{"err", "err", "err", "ok", "ok", "async"}).Draw(t, "out")
		if s.Out == "err" {
			s.F = len(s.E) - rapid.IntRange(0, len(s.E)).Draw(t, "failBeforeEnd")
			if rapid.IntRange(0, 3).Draw(t, "failKind") == 0 {
				s.FK = "bank"
			}
		}
		c.Pkts = append(c.Pkts, c09Pkt{L: rapid.IntRange(0, 1).Draw(t, "link"), D: rapid.IntRange(0, 1).Draw(t, "dir"), S: s})
	}
	return c
}

// expectCoreWrites returns the ibc store core must leave behind after receiving p with
// the given acknowledgement bytes (nil: async, no acknowledgement) on top of pre.
func expectCoreWrites(pre map[string]string, ordered bool, p channeltypes.Packet, ack []byte) map[string]string {
	out := make(map[string]string, len(pre)+2)
	for k, v := range pre {
		out[k] = v
	}
	if ordered {
		out[string(host.NextSequenceRecvKey(p.DestinationPort, p.DestinationChannel))] = string(sdk.Uint64ToBigEndian(p.Sequence + 1))
	} else {
		out[string(host.PacketReceiptKey(p.DestinationPort, p.DestinationChannel, p.Sequence))] = string([]byte{1})
	}
	if ack != nil {
		out[string(host.PacketAcknowledgementKey(p.DestinationPort, p.DestinationChannel, p.Sequence))] = string(channeltypes.CommitAcknowledgement(ack))
	}
	return out
}

// judgeErrRecv checks the error-ack clause on a (pre, post) pair. where names the run.
func judgeErrRecv(t rapid.TB, rec *vx.Case, id string, pre, post sim.Snap, ordered bool, p channeltypes.Packet, ack []byte, where string) {
	if d := sim.Diff(without(pre, exported.StoreKey), without(post, exported.StoreKey)); len(d) > 0 {
		vx.Violatef(t, rec, id, "err-ack-app-state-persisted", "%s: receive answered with an error acknowledgement but application/bank state changed: %s (packet %s/%s seq %d)", where, short(d), p.DestinationPort, p.DestinationChannel, p.Sequence)
	}
	want := sim.Snap{exported.StoreKey: expectCoreWrites(pre[exported.StoreKey], ordered, p, ack)}
	if d := sim.Diff(want, only(post, exported.StoreKey)); len(d) > 0 {
		vx.Violatef(t, rec, id, "err-ack-core-writes-wrong", "%s: after an error-acknowledged receive the ibc store is not pre-state + {receipt|nextSequenceRecv, sha256(error ack)}: differing keys %s (ordered=%v seq %d)", where, short(d), ordered, p.Sequence)
	}
}

func runC09(outer *testing.T) func(t rapid.TB, c c09Case, rec *vx.Case) {
	return func(t rapid.TB, c c09Case, rec *vx.Case) {
		const id = "C09"
		w := sim.NewWorld(outer, 2, nil)
		links := []*sim.Link{w.AddLink(sim.V1Unordered, 0, 1, nil), w.AddLink(sim.V1Ordered, 0, 1, nil)}
		x := newFx(w)
		x.installV1(0)
		x.installV1(1)
		errAck := sim.ErrAck().Acknowledgement()

		nt, errRecvs, okRecvs, asyncRecvs, faultRuns := 0, 0, 0, 0, 0
		for i, cp := range c.Pkts {
			w.StepNo = i
			l := links[((cp.L%2)+2)%2]
			dir := ((cp.D % 2) + 2) % 2
			ordered := l.Kind == sim.V1Ordered
			dc := l.Chain[1-dir]
			th := clienttypes.NewHeight(clienttypes.ParseChainID(w.Chains[dc].ChainID), uint64(w.Height(dc)+1000))
			s := cp.S
			pk, err := w.SendV1(l, dir, th, 0, s.bytes())
			if err != nil {
				vx.Harnessf("C09: send failed: %v", err)
			}
			h := w.FreshHeight(l, 1-dir, 0)
			msg, ok := w.BuildRecv(pk, h, 0).(*channeltypes.MsgRecvPacket)
			if !ok {
				vx.Harnessf("C09: not a v1 recv msg")
			}
			pre := snapCtx(w, dc, w.Ctx(dc))

			// ---- fault enumeration on discarded contexts: same packet, same proof, same
			// pre-state, failure after every prefix of the effects
			if s.Out == "err" {
				var first sim.Snap
				for f := 0; f <= len(s.E); f++ {
					x.failAt = f
					x.txNo++
					mark := len(x.log)
					cctx, _ := w.Ctx(dc).CacheContext()
					resp, rerr := w.App(dc).IBCKeeper.RecvPacket(cctx, msg)
					if rerr != nil || resp == nil || resp.Result != channeltypes.SUCCESS {
						// the receive itself is valid (fresh proof, first delivery): core refusing it is not
						// what the property is about, but then the enumeration says nothing
						vx.Harnessf("C09: direct RecvPacket on a cache context failed: %v", rerr)
					}
					if len(x.log) != mark+1 || x.log[mark].Executed != f {
						vx.Harnessf("C09: callback did not execute the requested prefix %d (log %+v)", f, x.log[mark:])
					}
					post := snapCtx(w, dc, cctx)
					faultRuns++
					judgeErrRecv(t, rec, id, pre, post, ordered, pk.P1, errAck, fmt.Sprintf("pkt %d fault after %d/%d effects (cache ctx)", i, f, len(s.E)))
					if f == 0 {
						first = post
					} else if d := sim.Diff(first, post); len(d) > 0 {
						vx.Violatef(t, rec, id, "prefix-dependent-state", "pkt %d: post-state of the failing receive depends on the executed prefix: after %d effects vs after 0 effects differ in %s", i, f, short(d))
					}
				}
				x.failAt = -1
				// nothing of the enumeration may have leaked into the chain state
				if d := sim.Diff(pre, snapCtx(w, dc, w.Ctx(dc))); len(d) > 0 {
					vx.Harnessf("C09: discarded cache contexts leaked state: %v", d)
				}
			}

			// ---- the real delivery through the transaction path
			x.txNo++
			mark := len(x.log)
			res := w.Deliver(dc, 0, msg)
			post := snapCtx(w, dc, w.Ctx(dc))
			kind := "unordered"
			if ordered {
				kind = "ordered"
			}
			n := s.prefix(-1)
			switch s.Out {
			case "err":
				errRecvs++
				rec.Class("err-%s-after-%d", kind, n)
				if s.FK == "bank" {
					rec.Class("err-by-rejected-bank-send")
				}
				if !res.OK {
					rec.Add("err_recv_tx_failed", 1)
				}
				judgeErrRecv(t, rec, id, pre, post, ordered, pk.P1, errAck, fmt.Sprintf("pkt %d delivered, failure after %d/%d effects (tx ok=%v)", i, n, len(s.E), res.OK))
				if res.OK && (len(x.log) != mark+1 || x.log[mark].Executed != n) {
					vx.Harnessf("C09: delivered receive did not run the callback once with prefix %d: %+v", n, x.log[mark:])
				}
				if n >= 1 && touches(w, dc, pre, s, n) {
					nt++
				}
			default:
				if s.Out == "ok" {
					okRecvs++
				} else {
					asyncRecvs++
				}
				rec.Class("%s-%s-k%d", s.Out, kind, len(s.E))
				want, affordable := applyModel(w, dc, pre, s, len(s.E))
				if !affordable {
					vx.Harnessf("C09: scripted bank send not affordable")
				}
				if d := sim.Diff(without(want, exported.StoreKey), without(post, exported.StoreKey)); len(d) > 0 {
					vx.Violatef(t, rec, id, "success-effects-not-persisted", "pkt %d: receive answered %s but application/bank state is not pre-state + all %d scripted effects: differing keys %s (tx ok=%v err=%v)", i, s.Out, len(s.E), short(d), res.OK, res.Err)
				}
			}
		}
		if x.bankErrs > 0 {
			vx.Harnessf("C09: %d scripted bank sends were refused", x.bankErrs)
		}
		rec.Add("err_recvs", int64(errRecvs))
		rec.Add("ok_recvs", int64(okRecvs))
		rec.Add("async_recvs", int64(asyncRecvs))
		rec.Add("fault_points_enumerated", int64(faultRuns))
		rec.Add("failing_recvs_with_visible_prefix", int64(nt))
		rec.NonTrivialIf(nt >= 1)
	}
}

func TestC09(t *testing.T) {
	vx.Check(t, vx.Prop[c09Case]{
		ID:        "C09",
		Rule:      "3..7 v1 packets over an UNORDERED and an ORDERED mock channel (both directions); data = script of 0..5 effects (app-store set/delete, bank send) then ok | err | async; every err packet is received once per failure point 0..k on discarded cache contexts via the core msg server, then delivered as a tx with the drawn failure point; non-trivial = a delivered failing receive that executed >= 1 effect whose model-visible state change had to be rolled back; distinct by full case",
		MinNTFrac: 0.3,
		Gen:       genC09,
		Run:       runC09(t),
	})
}
