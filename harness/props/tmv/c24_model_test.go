package tmv

// Independent reference for C24, written from the property statement. It decides, from the
// submitted protobuf message alone plus the stored trusted consensus state, the client's
// parameters and the block time, whether the statement PERMITS acceptance. It is used in
// one direction only: an acceptance the reference forbids is a violation; a rejection never
// is. Where the statement leaves strictness open (equalities) the reference takes the weaker
// reading, so it can only be more permissive than a correct implementation.
//
// Trusted building blocks: cometbft's header / validator-set hashing, canonical vote
// encoding and ed25519 verification. The tallying, thresholds, trusted-set lookup, revision,
// height and time rules are written here and share no code with ibc-go or cometbft/light.

import (
	"bytes"
	"math/big"
	"time"

	cmtproto "github.com/cometbft/cometbft/proto/tendermint/types"
	cmttypes "github.com/cometbft/cometbft/types"

	clienttypes "github.com/cosmos/ibc-go/v11/modules/core/02-client/types"
	ibctm "github.com/cosmos/ibc-go/v11/modules/light-clients/07-tendermint"
)

type cliParams struct {
	ChainID        string
	TrustN, TrustD uint64
	Trusting       time.Duration
	Drift          time.Duration
}

type trustedState struct {
	Found    bool
	TS       time.Time
	NextVals []byte
}

type verdict struct {
	OK       bool
	Why      string // first conjunct of the statement that fails
	Adjacent bool
	OwnPow   *big.Int // voting power of the header's own set that validly signed the header
	OwnTot   *big.Int
	TPow     *big.Int // voting power of trusted-set members that validly signed the header
	TTot     *big.Int
	Hash     []byte
	Height   clienttypes.Height
	Time     time.Time
}

func fail(v verdict, why string) verdict { v.OK, v.Why = false, why; return v }

// voteBytes is the canonical precommit the validator in slot `sig` must have signed for
// the header with hash `hash`: height and block hash come from the HEADER (so a commit for
// anything else is worthless), round / part-set header / timestamp are not bound by the
// header and come from the commit.
func voteBytes(chainID string, height int64, hash []byte, cm *cmtproto.Commit, sig *cmtproto.CommitSig) []byte {
	v := &cmtproto.Vote{
		Type: cmtproto.PrecommitType, Height: height, Round: cm.Round,
		BlockID:   cmtproto.BlockID{Hash: hash, PartSetHeader: cm.BlockID.PartSetHeader},
		Timestamp: sig.Timestamp,
	}
	return cmttypes.VoteSignBytes(chainID, v)
}

// modelCheck evaluates the statement for one header. misb selects the conjuncts that the
// statement (and DESIGN §5 C24) requires of a header inside a Misbehaviour: trusted set,
// trusted state present / below the header / within the trusting period, > 2/3 of the own
// set and >= trust level of the trusted set; it does not require the same revision, the
// clock-drift bound or the adjacent-hash rule, which only make sense for an update.
func modelCheck(h *ibctm.Header, p cliParams, tr trustedState, now time.Time, misb bool) verdict {
	v := verdict{OwnPow: new(big.Int), OwnTot: new(big.Int), TPow: new(big.Int), TTot: new(big.Int)}
	if h == nil || h.SignedHeader == nil || h.SignedHeader.Header == nil || h.SignedHeader.Commit == nil {
		return fail(v, "malformed")
	}
	hdr, err := cmttypes.HeaderFromProto(h.SignedHeader.Header)
	if err != nil {
		return fail(v, "malformed")
	}
	rev := clienttypes.ParseChainID(hdr.ChainID)
	if hdr.Height < 0 {
		return fail(v, "malformed")
	}
	v.Height = clienttypes.NewHeight(rev, uint64(hdr.Height))
	v.Time = hdr.Time
	v.Hash = hdr.Hash()

	// (1) a trusted consensus state must exist and the shipped trusted validators must hash
	//     to its next-validators hash
	if !tr.Found {
		return fail(v, "no-trusted-state")
	}
	tv, err := cmttypes.ValidatorSetFromProto(h.TrustedValidators)
	if err != nil {
		return fail(v, "trusted-vals-malformed")
	}
	if !bytes.Equal(tv.Hash(), tr.NextVals) {
		return fail(v, "trusted-vals-hash")
	}
	// (2) same revision, strictly above the trusted height
	if misb {
		if !v.Height.GT(h.TrustedHeight) {
			return fail(v, "height-le-trusted")
		}
	} else {
		if rev != h.TrustedHeight.RevisionNumber {
			return fail(v, "revision")
		}
		if uint64(hdr.Height) <= h.TrustedHeight.RevisionHeight {
			return fail(v, "height-le-trusted")
		}
	}
	// (3) trusting period (equality tolerated), clock drift (equality tolerated), and not
	//     before the trusted time (equality tolerated)
	if tr.TS.Add(p.Trusting).Before(now) {
		return fail(v, "expired")
	}
	if !misb {
		if hdr.Time.After(now.Add(p.Drift)) {
			return fail(v, "beyond-drift")
		}
		if hdr.Time.Before(tr.TS) {
			return fail(v, "time-before-trusted")
		}
	}
	// (4) voting power
	own, err := cmttypes.ValidatorSetFromProto(h.ValidatorSet)
	if err != nil {
		return fail(v, "own-vals-malformed")
	}
	if !bytes.Equal(own.Hash(), hdr.ValidatorsHash) {
		return fail(v, "own-vals-hash")
	}
	if len(v.Hash) == 0 {
		return fail(v, "malformed")
	}
	ownChain, trustChain := p.ChainID, p.ChainID
	if misb {
		ownChain = hdr.ChainID
		if clienttypes.IsRevisionFormat(p.ChainID) {
			trustChain, _ = clienttypes.SetRevisionNumber(p.ChainID, rev)
		}
	}
	cm := h.SignedHeader.Commit
	for _, val := range own.Validators {
		v.OwnTot.Add(v.OwnTot, big.NewInt(val.VotingPower))
	}
	for _, val := range tv.Validators {
		v.TTot.Add(v.TTot, big.NewInt(val.VotingPower))
	}
	tIdx := map[string]int{}
	for i, val := range tv.Validators {
		if _, dup := tIdx[string(val.Address)]; !dup {
			tIdx[string(val.Address)] = i
		}
	}
	tCounted := map[int]bool{}
	for idx := range cm.Signatures {
		sig := &cm.Signatures[idx]
		if sig.BlockIdFlag != cmtproto.BlockIDFlagCommit {
			continue
		}
		if idx < len(own.Validators) {
			val := own.Validators[idx]
			if bytes.Equal(val.Address, sig.ValidatorAddress) && val.PubKey != nil &&
				val.PubKey.VerifySignature(voteBytes(ownChain, hdr.Height, v.Hash, cm, sig), sig.Signature) {
				v.OwnPow.Add(v.OwnPow, big.NewInt(val.VotingPower))
			}
		}
		if ti, ok := tIdx[string(sig.ValidatorAddress)]; ok && !tCounted[ti] {
			val := tv.Validators[ti]
			if val.PubKey != nil && val.PubKey.VerifySignature(voteBytes(trustChain, hdr.Height, v.Hash, cm, sig), sig.Signature) {
				tCounted[ti] = true
				v.TPow.Add(v.TPow, big.NewInt(val.VotingPower))
			}
		}
	}
	// strictly more than 2/3 of the own set
	if new(big.Int).Mul(v.OwnPow, big.NewInt(3)).Cmp(new(big.Int).Mul(v.OwnTot, big.NewInt(2))) <= 0 {
		return fail(v, "own-power")
	}
	v.Adjacent = !misb && uint64(hdr.Height) == h.TrustedHeight.RevisionHeight+1
	if v.Adjacent {
		if !bytes.Equal(hdr.ValidatorsHash, tr.NextVals) {
			return fail(v, "adjacent-valhash")
		}
	} else {
		// at least the trust level of the trusted set (equality tolerated)
		l := new(big.Int).Mul(v.TPow, new(big.Int).SetUint64(p.TrustD))
		r := new(big.Int).Mul(v.TTot, new(big.Int).SetUint64(p.TrustN))
		if l.Cmp(r) < 0 {
			return fail(v, "trust-level")
		}
	}
	v.OK = true
	return v
}

// modelConflict says whether two headers are genuinely conflicting evidence: same height
// with different block hashes, or different heights where the higher block is not later in
// time than the lower one.
func modelConflict(a, b verdict) bool {
	if a.Height.EQ(b.Height) {
		return len(a.Hash) > 0 && len(b.Hash) > 0 && !bytes.Equal(a.Hash, b.Hash)
	}
	hi, lo := a, b
	if a.Height.LT(b.Height) {
		hi, lo = b, a
	}
	return !hi.Time.After(lo.Time)
}

// storedCons is one consensus state of the client as found in the store before the tx.
type storedCons struct {
	H  clienttypes.Height
	CS *ibctm.ConsensusState
}

// modelConflictsWithStore says whether an accepted header contradicts what the client already
// stores: another consensus state at its height, or a timestamp out of order with its stored
// neighbours.
func modelConflictsWithStore(h *ibctm.Header, v verdict, stored []storedCons) bool {
	cs := h.ConsensusState()
	var prev, next *storedCons
	for i := range stored {
		s := &stored[i]
		switch {
		case s.H.EQ(v.Height):
			return !(s.CS.Timestamp.Equal(cs.Timestamp) && bytes.Equal(s.CS.Root.Hash, cs.Root.Hash) && bytes.Equal(s.CS.NextValidatorsHash, cs.NextValidatorsHash))
		case s.H.LT(v.Height):
			if prev == nil || s.H.GT(prev.H) {
				prev = s
			}
		default:
			if next == nil || s.H.LT(next.H) {
				next = s
			}
		}
	}
	if prev != nil && !prev.CS.Timestamp.Before(cs.Timestamp) {
		return true
	}
	if next != nil && !next.CS.Timestamp.After(cs.Timestamp) {
		return true
	}
	return false
}
