package pktd

import (
	"bytes"
	"fmt"
	"testing"

	"pgregory.net/rapid"

	channeltypesv2 "github.com/cosmos/ibc-go/v11/modules/core/04-channel/v2/types"
	hostv2 "github.com/cosmos/ibc-go/v11/modules/core/24-host/v2"
	"github.com/cosmos/ibc-go/v11/modules/core/exported"

	"github.com/cosmos/ibc-go/v11/modules/apps/callbacks/verifx/sim"
	"github.com/cosmos/ibc-go/v11/modules/apps/callbacks/verifx/vx"
)

// C09 for IBC v2 receives (v2 client pair and v2 over a v1-channel alias): a failing
// payload leaves application stores and bank untouched while receipt and
// Commit([ErrorAcknowledgement]) are written, whatever was executed before the failure
// (fault enumeration over the failing payload's failure points on discarded cache contexts
// through the v2 message server, then a real delivery); an all-success receive and an
// accepted ASYNC receive (single payload) keep every scripted effect, the async one
// together with receipt + stored async packet and without an acknowledgement.

type c09vPkt struct {
	L int          `json:"l"` // 0: v2 client pair, 1: v2 over alias
	D int          `json:"d"`
	P []c10Payload `json:"p"` // outs: ok | err (after F effects) | async (only as the single payload)
}

type c09vCase struct {
	Pkts []c09vPkt `json:"pkts"`
}

func genC09v(t *rapid.T) c09vCase {
	var c c09vCase
	np := rapid.IntRange(3, 6).Draw(t, "npkts")
	nonce := 0
	for i := 0; i < np; i++ {
		pk := c09vPkt{L: rapid.IntRange(0, 1).Draw(t, "link"), D: rapid.IntRange(0, 1).Draw(t, "dir")}
		shape := rapid.SampledFrom([]string{"async", "async", "async", "err", "err", "err", "ok", "ok"}).Draw(t, "shape")
		n := rapid.SampledFrom([]int{1, 1, 2, 2, 3}).Draw(t, "npayloads")
		if shape == "async" {
			n = 1
		}
		failPos := rapid.IntRange(0, n-1).Draw(t, "failPos")
		for j := 0; j < n; j++ {
			nonce++
			s := xScript{N: nonce, E: genEffects(t, 4), Out: "ok"}
			if len(s.E) == 0 && rapid.Bool().Draw(t, "forceEffect") {
				s.E = []xEffect{{K: "set", Key: rapid.SampledFrom(c09Keys).Draw(t, "key")}}
			}
			switch {
			case shape == "async":
				s.Out = "async"
			case shape == "err" && j == failPos:
				s.Out = "err"
				s.F = len(s.E) - rapid.IntRange(0, len(s.E)).Draw(t, "failBeforeEnd")
				if rapid.IntRange(0, 3).Draw(t, "failKind") == 0 {
					s.FK = "bank"
				}
			}
			pk.P = append(pk.P, c10Payload{App: rapid.SampledFrom([]string{"A", "B"}).Draw(t, "app"), S: s})
		}
		c.Pkts = append(c.Pkts, pk)
	}
	return c
}

// judgeErrRecvV2: error clause for a v2 receive on a (pre, post) pair.
func judgeErrRecvV2(t rapid.TB, rec *vx.Case, id string, pre, post sim.Snap, p channeltypesv2.Packet, errCommit []byte, where string) {
	if d := sim.Diff(without(pre, exported.StoreKey), without(post, exported.StoreKey)); len(d) > 0 {
		vx.Violatef(t, rec, id, "err-ack-app-state-persisted", "%s: a payload failed but application/bank state changed: %s (v2 %s seq %d)", where, short(d), p.DestinationClient, p.Sequence)
	}
	want := cloneSnap(only(pre, exported.StoreKey))
	rk := string(hostv2.PacketReceiptKey(p.DestinationClient, p.Sequence))
	ak := string(hostv2.PacketAcknowledgementKey(p.DestinationClient, p.Sequence))
	// the receipt's value is not part of the statement: take whatever non-empty value was written
	if v := post[exported.StoreKey][rk]; v != "" {
		want[exported.StoreKey][rk] = v
	} else {
		want[exported.StoreKey][rk] = "<receipt missing>"
	}
	want[exported.StoreKey][ak] = string(errCommit)
	if d := sim.Diff(want, only(post, exported.StoreKey)); len(d) > 0 {
		vx.Violatef(t, rec, id, "err-ack-core-writes-wrong", "%s: after a failed v2 receive the ibc store is not pre-state + {receipt, Commit([ErrorAcknowledgement])}: differing keys %s", where, short(d))
	}
}

func runC09v(outer *testing.T) func(t rapid.TB, c c09vCase, rec *vx.Case) {
	return func(t rapid.TB, c c09vCase, rec *vx.Case) {
		const id = "C09"
		w := sim.NewWorld(outer, 2, nil)
		base := w.AddLink(sim.V1Unordered, 0, 1, nil)
		links := []*sim.Link{w.AddLink(sim.V2Clients, 0, 1, nil), w.AddLink(sim.V2Alias, 0, 1, base)}
		x := newFx(w)
		x.installV2(0)
		x.installV2(1)
		errCommit := channeltypesv2.CommitAcknowledgement(channeltypesv2.Acknowledgement{AppAcknowledgements: [][]byte{channeltypesv2.ErrorAcknowledgement[:]}})

		errVisible, asyncVisible, nErr, nOK, nAsync, faultRuns := 0, 0, 0, 0, 0, 0
		for i, cp := range c.Pkts {
			w.StepNo = i
			n := len(cp.P)
			if n == 0 {
				continue
			}
			// normalise: async only as the single payload; at most the first err matters
			firstErr, isAsync := -1, false
			for j, p := range cp.P {
				switch p.S.Out {
				case "err":
					if firstErr < 0 {
						firstErr = j
					}
				case "async":
					isAsync = true
				case "ok":
				default:
					vx.Harnessf("C09v2: unknown outcome %q", p.S.Out)
				}
			}
			if isAsync && n != 1 {
				rec.Add("skipped_multi_payload_async", 1)
				continue // C10's business
			}
			l := links[((cp.L%2)+2)%2]
			dir := ((cp.D % 2) + 2) % 2
			dc := l.Chain[1-dir]
			var pls []channeltypesv2.Payload
			for _, p := range cp.P {
				pls = append(pls, xPayload(p.App, p.S))
			}
			pk, sres := w.SendV2(l, dir, 0, uint64(w.Coord.CurrentTime.Unix()+600), pls...)
			if pk == nil {
				vx.Harnessf("C09v2: send failed: %v", sres.Err)
			}
			h := w.FreshHeight(l, 1-dir, 0)
			msg, ok := w.BuildRecv(pk, h, 0).(*channeltypesv2.MsgRecvPacket)
			if !ok {
				vx.Harnessf("C09v2: not a v2 recv msg")
			}
			pre := snapCtx(w, dc, w.Ctx(dc))
			rk := string(hostv2.PacketReceiptKey(pk.P2.DestinationClient, pk.P2.Sequence))
			ak := string(hostv2.PacketAcknowledgementKey(pk.P2.DestinationClient, pk.P2.Sequence))

			// ---- fault enumeration over the failing payload's failure points
			if firstErr >= 0 {
				fs := cp.P[firstErr].S
				var first sim.Snap
				for f := 0; f <= len(fs.E); f++ {
					x.failAt = f
					x.txNo++
					mark := len(x.log)
					cctx, _ := w.Ctx(dc).CacheContext()
					resp, rerr := w.App(dc).IBCKeeper.ChannelKeeperV2.RecvPacket(cctx, msg)
					if rerr != nil || resp == nil || resp.Result != channeltypesv2.SUCCESS {
						vx.Harnessf("C09v2: direct v2 RecvPacket on a cache context failed: %v", rerr)
					}
					if len(x.log) < mark+firstErr+1 || x.log[mark+firstErr].Executed != f {
						vx.Harnessf("C09v2: failing payload did not execute the requested prefix %d (log %+v)", f, x.log[mark:])
					}
					post := snapCtx(w, dc, cctx)
					faultRuns++
					judgeErrRecvV2(t, rec, id, pre, post, pk.P2, errCommit, fmt.Sprintf("pkt %d (%s) payload %d fault after %d/%d effects (cache ctx)", i, l.Kind, firstErr, f, len(fs.E)))
					if f == 0 {
						first = post
					} else if d := sim.Diff(first, post); len(d) > 0 {
						vx.Violatef(t, rec, id, "prefix-dependent-state", "pkt %d: post-state of the failing v2 receive depends on the executed prefix: after %d effects vs after 0 effects differ in %s", i, f, short(d))
					}
				}
				x.failAt = -1
				if d := sim.Diff(pre, snapCtx(w, dc, w.Ctx(dc))); len(d) > 0 {
					vx.Harnessf("C09v2: discarded cache contexts leaked state: %v", d)
				}
			}

			// ---- the real delivery
			x.txNo++
			res := w.Deliver(dc, 0, msg)
			post := snapCtx(w, dc, w.Ctx(dc))
			where := fmt.Sprintf("pkt %d (%s, outs %v, tx ok=%v err=%v)", i, l.Kind, outs(cp.P), res.OK, res.Err)

			// the model of everything that precedes / makes up the receive
			model := pre
			visible := false
			upto := n
			if firstErr >= 0 {
				upto = firstErr
			}
			for j := 0; j < upto; j++ {
				if touches(w, dc, model, cp.P[j].S, len(cp.P[j].S.E)) {
					visible = true
				}
				var affordable bool
				if model, affordable = applyModel(w, dc, model, cp.P[j].S, len(cp.P[j].S.E)); !affordable {
					vx.Harnessf("C09v2: scripted bank send not affordable")
				}
			}

			switch {
			case firstErr >= 0:
				nErr++
				fs := cp.P[firstErr].S
				k := fs.prefix(-1)
				rec.Class("v2-err:%s:n%d:fail-at-%d-after-%d", l.Kind, n, firstErr, k)
				judgeErrRecvV2(t, rec, id, pre, post, pk.P2, errCommit, where)
				if visible || (k >= 1 && touches(w, dc, model, fs, k)) {
					errVisible++
				}
			case isAsync:
				nAsync++
				rec.Class("v2-async:%s:k%d", l.Kind, len(cp.P[0].S.E))
				if d := sim.Diff(without(model, exported.StoreKey), without(post, exported.StoreKey)); len(d) > 0 {
					vx.Violatef(t, rec, id, "async-effects-not-persisted", "%s: the single payload answered async but application/bank state is not pre-state + its %d scripted effects: differing keys %s", where, len(cp.P[0].S.E), short(d))
				}
				_, stored := w.App(dc).IBCKeeper.ChannelKeeperV2.GetAsyncPacket(w.Ctx(dc), pk.P2.DestinationClient, pk.P2.Sequence)
				if post[exported.StoreKey][rk] == "" || !stored || post[exported.StoreKey][ak] != "" {
					vx.Violatef(t, rec, id, "async-core-writes-wrong", "%s: after an async v2 receive: receipt present=%v, async packet stored=%v, ack present=%v (want true, true, false)", where, post[exported.StoreKey][rk] != "", stored, post[exported.StoreKey][ak] != "")
				}
				if visible {
					asyncVisible++
				}
			default:
				nOK++
				rec.Class("v2-ok:%s:n%d", l.Kind, n)
				if d := sim.Diff(without(model, exported.StoreKey), without(post, exported.StoreKey)); len(d) > 0 {
					vx.Violatef(t, rec, id, "success-effects-not-persisted", "%s: every payload succeeded but application/bank state is not pre-state + all scripted effects: differing keys %s", where, short(d))
				}
				var acks [][]byte
				for _, p := range cp.P {
					acks = append(acks, sim.OKAck2(p.S.N))
				}
				if post[exported.StoreKey][rk] == "" || !bytes.Equal([]byte(post[exported.StoreKey][ak]), channeltypesv2.CommitAcknowledgement(channeltypesv2.Acknowledgement{AppAcknowledgements: acks})) {
					rec.Add("ok_recv_core_writes_unexpected", 1)
				}
			}
		}
		if x.bankErrs > 0 {
			vx.Harnessf("C09v2: %d scripted bank sends were refused", x.bankErrs)
		}
		rec.Add("v2_err_recvs", int64(nErr))
		rec.Add("v2_ok_recvs", int64(nOK))
		rec.Add("v2_async_recvs", int64(nAsync))
		rec.Add("v2_fault_points_enumerated", int64(faultRuns))
		rec.Add("v2_failing_recvs_with_visible_rollback", int64(errVisible))
		rec.Add("v2_async_recvs_with_visible_effects", int64(asyncVisible))
		rec.NonTrivialIf(errVisible >= 1 && asyncVisible >= 1)
	}
}

func TestC09V2(t *testing.T) {
	vx.Check(t, vx.Prop[c09vCase]{
		ID:        "C09",
		Rule:      "3..6 IBC v2 packets over a v2 client pair and a v2-over-alias link (both directions), 1..3 payloads to mockv2A/B with scripts of 0..4 effects: all ok | one payload err after a prefix (also by rejected bank send) | single payload async; every failing packet is received once per failure point of the failing payload on discarded cache contexts via the v2 msg server, then delivered as a tx; non-trivial = >= 1 delivered failing receive with a model-visible change rolled back AND >= 1 accepted async receive with model-visible effects; distinct by full case",
		MinNTFrac: 0.3,
		Gen:       genC09v,
		Run:       runC09v(t),
	})
}
