package token

import (
	"testing"
	"time"

	"github.com/cosmos/ibc-go/v11/modules/apps/callbacks/verifx/tokensim"
)

func checkAll(t *testing.T, w *tokensim.World, st *tokensim.Step) {
	t.Helper()
	t.Logf("%s", st.Describe())
	if st.DataNote != "" {
		t.Errorf("data note: %s", st.DataNote)
	}
	fs, n := w.CheckChannelBalance(false)
	for _, f := range fs {
		t.Errorf("%s: %s", f.Sig, f.Msg)
	}
	_ = n
	for _, f := range w.CheckNativeSupply() {
		t.Errorf("%s: %s", f.Sig, f.Msg)
	}
	for _, f := range w.CheckFrame(st) {
		t.Errorf("%s: %s", f.Sig, f.Msg)
	}
	fs, _ = w.CheckEscrowTotals()
	for _, f := range fs {
		t.Errorf("%s: %s", f.Sig, f.Msg)
	}
	for _, d := range w.ModelDiff() {
		t.Errorf("model diff: %s", d)
	}
}

func TestSmoke(t *testing.T) {
	t0 := time.Now()
	spec := tokensim.Spec{Chains: 3, Links: []tokensim.LinkSpec{{K: 0, A: 0, B: 1}, {K: 1, A: 0, B: 1}, {K: 2, A: 0, B: 1}, {K: 0, A: 1, B: 2}, {K: 1, A: 1, B: 2}, {K: 2, A: 2, B: 0}},
		Denoms: [][]string{{"ufoo", "gamm/pool/1"}, {"ufoo"}, {"atom2"}}}
	w := tokensim.NewWorld(t, spec)
	t.Logf("world: %v, links=%d ends=%d", time.Since(t0), len(w.Links), len(w.Ends))
	no := 0
	run := func(op tokensim.Op) *tokensim.Step {
		st := w.Exec(no, op)
		no++
		checkAll(t, w, st)
		return st
	}
	// chain0 routes: each link from chain 0
	for i, rt := range w.RoutesFrom(0) {
		t.Logf("route %d from chain0: link %d kind %v dir %d id %s", i, rt.Link.Idx, rt.Link.Kind, rt.Dir, rt.Link.ID(rt.Dir))
	}
	for li := 0; li < len(w.RoutesFrom(0)); li++ {
		for via := 0; via < 2; via++ {
			st := run(tokensim.Op{K: "transfer", C: 0, L: li, Pref: 2, Den: 1, Amt: 100 + int64(li), S: 0, R: 1, Sig: 0, Via: via, Enc: li + via})
			if !st.Sent {
				t.Logf("NOT SENT: %v", st.Res.Err)
				continue
			}
			run(tokensim.Op{K: "recv", P: -1, H: -1, Sig: 5})
			run(tokensim.Op{K: "dup", N: 0})
			run(tokensim.Op{K: "ack", P: -1, H: -1, Sig: 6})
			run(tokensim.Op{K: "dup", N: 0})
		}
	}
	// multihop: chain1 acct1 sends vouchers to chain2
	for li := 0; li < len(w.RoutesFrom(1)); li++ {
		st := run(tokensim.Op{K: "transfer", C: 1, L: li, Pref: 1, Den: li, Amt: 7, S: 1, R: 2, Sig: 1, Via: li % 2})
		if st.Sent {
			run(tokensim.Op{K: "recv", P: -1, H: -1, Sig: 5})
			run(tokensim.Op{K: "ack", P: -1, H: -1, Sig: 5})
		}
	}
	// forced failure + error ack refund
	run(tokensim.Op{K: "force", C: 1, On: false})
	st := run(tokensim.Op{K: "transfer", C: 0, L: 0, Pref: 2, Amt: 55, S: 2, R: 3, Sig: 2})
	if st.Sent {
		run(tokensim.Op{K: "recv", P: -1, H: -1, Sig: 5})
		run(tokensim.Op{K: "ack", P: -1, H: -1, Sig: 7, Forge: true})
		run(tokensim.Op{K: "ack", P: -1, H: -1, Sig: 7})
		run(tokensim.Op{K: "timeout", P: -1, H: -1, Sig: 7})
	}
	run(tokensim.Op{K: "force", C: 1, On: true})
	// timeout by height
	st = run(tokensim.Op{K: "transfer", C: 0, L: 0, Pref: 2, Amt: 66, S: 2, R: 3, RK: 1, Sig: 2, TH: 2})
	if st.Sent {
		run(tokensim.Op{K: "block", C: 1, N: 2})
		run(tokensim.Op{K: "timeout", P: -1, H: -1, Sig: 7})
		run(tokensim.Op{K: "recv", P: -1, H: -1, Sig: 7})
	}
	for _, p := range w.TP {
		t.Logf("%s", p)
	}
	t.Logf("total: %v steps=%d", time.Since(t0), no)
}
