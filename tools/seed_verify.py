#!/usr/bin/env python3
"""Confirm and evaluate a seeded change:  tools/seed_verify.py <seed-name> <Cxx> [more Cxx...]
 seed dir = /verif/seeded/<seed-name>/ (patch.diff, demo test, meta.json with demo_file/demo_cmd).
 Steps in the scratch worktree /var/tmp/mut (reset to /repo HEAD): demo must FAIL with the patch and PASS without;
 the packages touched by the patch must still pass their own tests; then each listed check's quick tier is run
 with VERIF_REPO=/var/tmp/mut and must report VIOLATION. Results are appended to meta.json under "confirmed"."""
import json, os, subprocess, sys, time, re
name, checks = sys.argv[1], sys.argv[2:]
d = "/verif/seeded/" + name
WT = os.environ.get("SEED_WT", "/var/tmp/mut")
env = dict(os.environ)
env["PATH"] = "/root/go/pkg/mod/golang.org/toolchain@v0.0.1-go1.26.5.linux-amd64/bin:" + env["PATH"]
env.update(GOTOOLCHAIN="local", GOFLAGS="-mod=mod", GOPROXY="off", GOSUMDB="off")
def sh(cmd, cwd=WT, timeout=7200):
    p = subprocess.run(cmd, shell=True, cwd=cwd, env=env, stdout=subprocess.PIPE, stderr=subprocess.STDOUT, text=True, timeout=timeout)
    return p.returncode, p.stdout
meta = json.load(open(d + "/meta.json"))
head = sh("git -C /repo rev-parse HEAD")[1].strip()
sh("git checkout -q -- . && git clean -fdq && git checkout -q --detach " + head)
out = {"repo_head": head, "when": time.strftime("%Y-%m-%d %H:%M")}
demo_src = [f for f in os.listdir(d) if f.endswith("_test.go") or f.endswith(".go")]
demo_file = meta.get("demo_file")
def put_demo():
    sh("rm -rf SEED && mkdir SEED && cp %s/* SEED/" % d)
    if demo_file and demo_src:
        os.makedirs(os.path.dirname(os.path.join(WT, demo_file)), exist_ok=True)
        open(os.path.join(WT, demo_file), "w").write(open(os.path.join(d, demo_src[0])).read())
if "--nodemo" not in sys.argv and demo_file:
    checks = [c for c in checks if not c.startswith("--")]
    put_demo()
    rc, o = sh(meta["demo_cmd"])
    out["demo_without_patch"] = "pass" if rc == 0 else "FAIL(rc=%d) %s" % (rc, o[-400:])
    rc, o = sh("git apply %s/patch.diff" % d)
    if rc != 0:
        out["apply"] = "FAILED " + o[-300:]
    rc, o = sh(meta["demo_cmd"])
    out["demo_with_patch"] = "fails (as required)" if rc != 0 else "PASSES (seed not confirmed)"
    os.remove(os.path.join(WT, demo_file))
    # tests of the touched packages
    files = [l[6:].strip() for l in open(d + "/patch.diff") if l.startswith("+++ b/")]
    pkgs = sorted({"./" + os.path.dirname(f) for f in files if f.endswith(".go")})
    tr = {}
    for pk in pkgs:
        cwd = WT
        m = re.match(r"\./(modules/light-clients/08-wasm)(/.*)?$", pk)
        if m:
            cwd, pk = WT + "/" + m.group(1), "." + (m.group(2) or "")
        rc, o = sh("go test -count=1 -vet=off -p 4 -timeout 90m %s" % pk, cwd=cwd)
        tr[pk] = "ok" if rc == 0 else "FAIL " + o[-500:]
    out["touched_pkg_tests_with_patch"] = tr
else:
    checks = [c for c in checks if not c.startswith("--")]
    sh("git apply %s/patch.diff" % d)
res = {}
for c in checks:
    rc, o = sh("VERIF_REPO=%s ./check %s --tier quick" % (WT, c), cwd="/verif")
    v = [l for l in o.splitlines() if l.startswith("VIOLATION property=")]
    res[c] = {"exit": rc, "detected": rc == 1 and bool(v), "first": (v[0][:300] if v else o[-300:])}
out["checks"] = res
sh("git checkout -q -- . && git clean -fdq && rm -rf SEED")
meta.setdefault("confirmed", []).append(out)
json.dump(meta, open(d + "/meta.json", "w"), indent=1)
print(json.dumps(out, indent=1))
