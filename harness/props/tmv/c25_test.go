package tmv

// C25 (recovery half): MsgRecoverClient succeeds only when the subject is not Active, the
// substitute is Active, of the same type and at a strictly greater latest height and — for
// Tendermint — equal in every parameter except latest height, frozen height, trusting period,
// chain id and the two deprecated allow-update flags; afterwards the subject is unfrozen and
// holds the substitute's latest height and consensus state, and nothing outside the subject's
// clients/<subject>/ namespace changed.
//
// One real chain A; Tendermint clients track the virtual chain of vchain_test.go, solo
// machines come from ibctesting.NewSolomachine. Clients are created / updated / frozen by
// misbehaviour through transactions; "frozen by write" and the recovery call itself are
// direct keeper / msg-server calls (no key exists for the governance module account): the
// msg server runs on a cache context that is written only on success, as a tx would.

import (
	"bytes"
	"fmt"
	"sort"
	"strings"
	"testing"
	"time"

	"pgregory.net/rapid"

	authtypes "github.com/cosmos/cosmos-sdk/x/auth/types"
	govtypes "github.com/cosmos/cosmos-sdk/x/gov/types"

	clienttypes "github.com/cosmos/ibc-go/v11/modules/core/02-client/types"
	commitmenttypes "github.com/cosmos/ibc-go/v11/modules/core/23-commitment/types"
	"github.com/cosmos/ibc-go/v11/modules/core/exported"
	solomachine "github.com/cosmos/ibc-go/v11/modules/light-clients/06-solomachine"
	ibctm "github.com/cosmos/ibc-go/v11/modules/light-clients/07-tendermint"
	ibctesting "github.com/cosmos/ibc-go/v11/testing"

	"github.com/cosmos/ibc-go/v11/modules/apps/callbacks/verifx/sim"
	"github.com/cosmos/ibc-go/v11/modules/apps/callbacks/verifx/vx"
)

type c25Side struct {
	Type    string `json:"type"`    // tm | solo
	Status  string `json:"status"`  // active | frozen | expired (solo: expired is impossible and means active)
	Freeze  string `json:"freeze"`  // write | misb
	Updates int    `json:"updates"` // extra honest updates after creation (tm) / header updates (solo)
}

type c25Case struct {
	Subj    c25Side `json:"subj"`
	Sub     c25Side `json:"sub"`
	HRel    int     `json:"hrel"` // substitute latest height relative to the subject's: -1 lower, 0 equal, +1 greater
	HGap    int     `json:"hgap"`
	Diff    string  `json:"diff"`    // the one parameter in which the substitute differs
	DiffArg int     `json:"diffarg"` //
	SameID  bool    `json:"same_id"` // the substitute IS the subject
	SoloKey bool    `json:"solo_same_key"`
	TrustN  uint64  `json:"tn"`
	TrustD  uint64  `json:"tdn"`
	Perturb int     `json:"perturb"` // how many gate conditions the generator broke on purpose (information only)
}

var c25ExemptDiffs = map[string]bool{"none": true, "trusting": true, "chain-id": true, "chain-id-rev": true, "allow-flags": true}
var c25Diffs = []string{"none", "trusting", "chain-id", "chain-id-rev", "allow-flags", "trust-level", "unbonding", "drift", "proof-specs", "upgrade-path"}

const c25Trusting = 2000 * time.Second

var c25Set = vSet{{K: 0, P: 5}, {K: 1, P: 4}, {K: 2, P: 3}, {K: 3, P: 3}}

// c25Client is the harness' own record of a client it built (the model side).
type c25Client struct {
	ID      string
	Type    string
	Chain   string
	Rev     uint64
	Latest  uint64
	Status  string // model status
	Solo    *ibctesting.Solomachine
	Trust   time.Duration
	Created time.Time
}

func (c c25Client) height() clienttypes.Height { return clienttypes.NewHeight(c.Rev, c.Latest) }

type tmParams struct {
	Chain                          string
	TrustN, TrustD                 uint64
	Trusting, Unbonding, Drift     time.Duration
	SpecsAlt, PathAlt, AllowFlags  bool
	PathEmpty                      bool
}

func (p tmParams) clientState(h uint64) *ibctm.ClientState {
	specs := commitmenttypes.GetSDKSpecs()
	if p.SpecsAlt {
		specs = append(specs[:0:0], specs[1], specs[0])
	}
	path := ibctesting.UpgradePath
	if p.PathAlt {
		path = []string{"upgrade", "otherIBCState"}
	}
	if p.PathEmpty {
		path = []string{}
	}
	cs := ibctm.NewClientState(p.Chain, ibctm.Fraction{Numerator: p.TrustN, Denominator: p.TrustD}, p.Trusting, p.Unbonding, p.Drift,
		clienttypes.NewHeight(clienttypes.ParseChainID(p.Chain), h), specs, path)
	if p.AllowFlags {
		cs.AllowUpdateAfterExpiry, cs.AllowUpdateAfterMisbehaviour = true, true
	}
	return cs
}

// tmHeader builds an honest, fully signed header of the fixed validator set at height h whose
// block time is `at` (fork alters the app hash).
func tmHeader(chain string, h, trusted uint64, at time.Time, origin time.Time, fork int) *ibctm.Header {
	s := hdrSpec{Chain: chain, H: int64(h), TrustRev: clienttypes.ParseChainID(chain), TrustH: trusted, Own: c25Set.clone(), Next: c25Set.clone(),
		TVals: c25Set.clone(), Fork: fork, TMode: "chain", TD: int64(at.Sub(origin))}
	return buildHeader(s, buildEnv{base: origin, now: origin})
}

// mkTM creates a Tendermint client of the virtual chain at height h whose consensus state is
// 100 s old, applies `updates` honest updates (one height each) and freezes it if asked.
func mkTM(w *sim.World, p tmParams, h uint64, side c25Side) c25Client {
	now := w.Coord.CurrentTime
	t0 := now.Add(-100 * time.Second)
	cons := ibctm.NewConsensusState(t0, commitmenttypes.NewMerkleRoot(sha("app", h, 0)), c25Set.hash())
	// the client is created `updates` heights below its final height and updated up to it
	start := h - uint64(side.Updates)
	cons.Root = commitmenttypes.NewMerkleRoot(sha("app", start, 0))
	id := createClient(w, p.clientState(start), cons)
	for k := uint64(1); k <= uint64(side.Updates); k++ {
		hd := tmHeader(p.Chain, start+k, start+k-1, t0.Add(time.Duration(k)*time.Second), t0, 0)
		if res := deliverClientMsg(w, id, hd); !res.OK {
			vx.Harnessf("honest set-up update failed: %v", res.Err)
		}
	}
	c := c25Client{ID: id, Type: "tm", Chain: p.Chain, Rev: clienttypes.ParseChainID(p.Chain), Latest: h, Status: "active", Trust: p.Trusting, Created: now}
	if side.Status == "frozen" {
		if side.Freeze == "misb" {
			at := t0.Add(time.Duration(side.Updates+5) * time.Second)
			m := ibctm.NewMisbehaviour(id, tmHeader(p.Chain, h+3, h, at, t0, 0), tmHeader(p.Chain, h+3, h, at, t0, 1))
			if res := deliverClientMsg(w, id, m); !res.OK {
				vx.Harnessf("freezing by misbehaviour failed: %v", res.Err)
			}
		} else {
			cs := tmClientState(w, id)
			cs.FrozenHeight = ibctm.FrozenHeight
			w.App(0).IBCKeeper.ClientKeeper.SetClientState(w.Ctx(0), id, cs)
			w.Block(0, 1)
		}
		c.Status = "frozen"
	}
	return c
}

func mkSolo(outer *testing.T, w *sim.World, seq uint64, side c25Side, label string, keyFrom *ibctesting.Solomachine) c25Client {
	var solo *ibctesting.Solomachine
	sim.Guard("solomachine", func() {
		solo = ibctesting.NewSolomachine(outer, w.App(0).AppCodec(), "solomachine-"+label, "div-"+label, 1)
	})
	if keyFrom != nil {
		solo.PrivateKeys, solo.PublicKeys, solo.PublicKey = keyFrom.PrivateKeys, keyFrom.PublicKeys, keyFrom.PublicKey
	}
	solo.Sequence = seq
	id := createClient(w, solo.ClientState(), solo.ConsensusState())
	c := c25Client{ID: id, Type: "solo", Latest: seq, Status: "active", Solo: solo}
	if side.Status == "frozen" {
		if side.Freeze == "misb" {
			var m *solomachine.Misbehaviour
			sim.Guard("solo misbehaviour", func() { m = solo.CreateMisbehaviour() })
			if res := deliverClientMsg(w, id, m); !res.OK {
				vx.Harnessf("freezing the solo machine by misbehaviour failed: %v", res.Err)
			}
		} else {
			cs, _ := w.App(0).IBCKeeper.ClientKeeper.GetClientState(w.Ctx(0), id)
			sm := cs.(*solomachine.ClientState)
			sm.IsFrozen = true
			w.App(0).IBCKeeper.ClientKeeper.SetClientState(w.Ctx(0), id, sm)
			w.Block(0, 1)
		}
		c.Status = "frozen"
	}
	return c
}

// rawDiff lists "store:key" of every key whose value differs between two snapshots.
func rawDiff(a, b sim.Snap) []string {
	var out []string
	seen := map[string]bool{}
	for st, am := range a {
		for k, v := range am {
			if bv, ok := b[st][k]; !ok || bv != v {
				seen[st+":"+k] = true
			}
		}
	}
	for st, bm := range b {
		for k := range bm {
			if _, ok := a[st][k]; !ok {
				seen[st+":"+k] = true
			}
		}
	}
	for k := range seen {
		out = append(out, k)
	}
	sort.Strings(out)
	return out
}

func outsideNamespace(diff []string, clientID string) []string {
	var bad []string
	pfx := "ibc:clients/" + clientID + "/"
	for _, d := range diff {
		if !strings.HasPrefix(d, pfx) {
			bad = append(bad, fmt.Sprintf("%q", d))
		}
	}
	return bad
}

func runC25(outer *testing.T) func(t rapid.TB, c c25Case, rec *vx.Case) {
	return func(t rapid.TB, c c25Case, rec *vx.Case) {
		const id = "C25"
		w := sim.NewWorld(outer, 1, nil)
		k := w.App(0).IBCKeeper.ClientKeeper

		base := tmParams{Chain: "vchain-1", TrustN: c.TrustN, TrustD: c.TrustD, Trusting: c25Trusting, Unbonding: 3 * c25Trusting, Drift: 10 * time.Second}
		alt := base
		switch c.Diff {
		case "trusting":
			alt.Trusting += time.Duration(1+c.DiffArg%100) * time.Second
		case "chain-id":
			alt.Chain = "wchain-1"
		case "chain-id-rev":
			alt.Chain = "vchain-2"
		case "allow-flags":
			alt.AllowFlags = true
		case "trust-level":
			alt.TrustN, alt.TrustD = 2, 3
			if base.TrustN == 2 && base.TrustD == 3 {
				alt.TrustN, alt.TrustD = 1, 2
			}
		case "unbonding":
			alt.Unbonding += time.Duration(1+c.DiffArg%100) * time.Nanosecond
		case "drift":
			alt.Drift += time.Duration(1+c.DiffArg%100) * time.Nanosecond
		case "proof-specs":
			alt.SpecsAlt = true
		case "upgrade-path":
			if c.DiffArg%2 == 0 {
				alt.PathAlt = true
			} else {
				alt.PathEmpty = true
			}
		}
		subjP, subP := base, alt
		if c.DiffArg%3 == 2 { // the altered value sits on the subject instead
			subjP, subP = alt, base
		}

		hs := uint64(20)
		hb := hs
		switch {
		case c.HRel > 0:
			hb = hs + uint64(c.HGap)
		case c.HRel < 0:
			hb = hs - uint64(c.HGap)
		}

		// clients that must be Expired are created first, then the clock passes their trusting period
		type slot struct {
			side  c25Side
			p     tmParams
			h     uint64
			label string
			out   *c25Client
		}
		var subj, sub, by, bySolo c25Client
		slots := []slot{{c.Subj, subjP, hs, "subject", &subj}}
		if !c.SameID {
			slots = append(slots, slot{c.Sub, subP, hb, "substitute", &sub})
		}
		slots = append(slots, slot{c25Side{Type: "tm", Status: "active", Updates: 1}, base, 23, "bystander", &by},
			slot{c25Side{Type: "solo", Status: "active"}, base, 7, "bystander-solo", &bySolo})
		build := func(s slot) {
			if s.side.Type == "solo" {
				var keyFrom *ibctesting.Solomachine
				if c.SoloKey && s.label == "substitute" {
					keyFrom = subj.Solo
				}
				*s.out = mkSolo(outer, w, s.h, s.side, s.label, keyFrom)
			} else {
				*s.out = mkTM(w, s.p, s.h, s.side)
			}
		}
		early := false
		for _, s := range slots {
			if s.side.Type == "tm" && s.side.Status == "expired" {
				build(s)
				early = true
			}
		}
		if early {
			w.AdvanceTime(c25Trusting + 200*time.Second) // > every trusting period in play
			for _, s := range slots {
				if s.side.Type == "tm" && s.side.Status == "expired" {
					s.out.Status = "expired"
				}
			}
		}
		for _, s := range slots {
			if !(s.side.Type == "tm" && s.side.Status == "expired") {
				build(s)
			}
		}
		if c.SameID {
			sub = subj
		}
		// the harness' status model must agree with the code's status (C21 judges the status
		// function itself; a disagreement here would make this check's gate meaningless)
		for _, cl := range []c25Client{subj, sub, by, bySolo} {
			got := strings.ToLower(string(k.GetClientStatus(w.Ctx(0), cl.ID)))
			if got != cl.Status {
				vx.Harnessf("status model mismatch for %s: built %s, chain says %s", cl.ID, cl.Status, got)
			}
		}

		// ---- the reference gate -----------------------------------------------------------------
		var failed []string
		if subj.Status == "active" {
			failed = append(failed, "subject-active")
		}
		if sub.Status != "active" {
			failed = append(failed, "substitute-not-active")
		}
		if subj.Type != sub.Type {
			failed = append(failed, "type-mismatch")
		}
		if !sub.height().GT(subj.height()) {
			failed = append(failed, "height-not-greater")
		}
		if subj.Type == "tm" && sub.Type == "tm" && !c25ExemptDiffs[c.Diff] {
			failed = append(failed, "param-"+c.Diff)
		}
		gate := len(failed) == 0

		// what the substitute holds before the call
		var subLatestCons []byte
		subStoreBefore := k.ClientStore(w.Ctx(0), sub.ID)
		var subCS exported.ClientState
		subCS, _ = k.GetClientState(w.Ctx(0), sub.ID)
		if sub.Type == "tm" {
			subLatestCons = subStoreBefore.Get([]byte("consensusStates/" + sub.height().String()))
		}

		pre := w.Snapshot(0)
		authority := authtypes.NewModuleAddress(govtypes.ModuleName).String()
		msg := clienttypes.NewMsgRecoverClient(authority, subj.ID, sub.ID)
		var err error
		panicked := false
		if err = msg.ValidateBasic(); err == nil {
			cctx, write := w.Ctx(0).CacheContext()
			panicked, _ = vx.Recover(func() { _, err = w.App(0).IBCKeeper.RecoverClient(cctx, msg) })
			if !panicked && err == nil {
				write()
			}
		}
		w.Block(0, 1)
		post := w.Snapshot(0)
		ok := err == nil && !panicked

		rec.Class("types:%s/%s", subj.Type, sub.Type)
		rec.Class("status:%s/%s", subj.Status, sub.Status)
		rec.Class("hrel:%d", c.HRel)
		rec.Class("diff:%s", c.Diff)
		rec.Class("gate-failures:%d", len(failed))
		for _, f := range failed {
			rec.Class("gate-fails:%s", f)
		}
		if c.SameID {
			rec.Class("same-id")
		}
		if panicked {
			rec.Class("outcome:panic")
			rec.Add("recover_panics", 1)
		}
		diff := rawDiff(pre, post)
		if !ok {
			rec.Class("outcome:rejected")
			if gate {
				if subj.Type == "solo" && c.SoloKey {
					rec.Add("gate_ok_rejected_same_solo_key", 1)
				} else {
					rec.Add("gate_ok_rejected", 1)
				}
			} else {
				rec.Add("gate_fail_rejected", 1)
			}
			if len(diff) > 0 {
				vx.Violatef(t, rec, id, "failed-recovery-changes-state", "failed recovery of %s with %s changed %v", subj.ID, sub.ID, diff)
			}
		} else {
			rec.Class("outcome:recovered")
			rec.Add("recovered", 1)
			if !gate {
				vx.Violatef(t, rec, id, "recovered-"+failed[0], "recovery of %s (%s, %s, latest %s) with substitute %s (%s, %s, latest %s, diff %s) succeeded although: %v",
					subj.ID, subj.Type, subj.Status, subj.height(), sub.ID, sub.Type, sub.Status, sub.height(), c.Diff, failed)
			}
			rec.Add("gate_ok_recovered", 1)
			if bad := outsideNamespace(diff, subj.ID); len(bad) > 0 {
				vx.Violatef(t, rec, id, "recovery-writes-outside-subject", "recovery of %s changed keys outside its namespace: %v", subj.ID, bad)
			}
			after, _ := k.GetClientState(w.Ctx(0), subj.ID)
			switch a := after.(type) {
			case *ibctm.ClientState:
				if !a.FrozenHeight.IsZero() {
					vx.Violatef(t, rec, id, "recovered-still-frozen", "subject %s still frozen at %s after recovery", subj.ID, a.FrozenHeight)
				}
				if !a.LatestHeight.EQ(sub.height()) {
					vx.Violatef(t, rec, id, "recovered-wrong-height", "subject %s latest height %s, substitute had %s", subj.ID, a.LatestHeight, sub.height())
				}
				got := k.ClientStore(w.Ctx(0), subj.ID).Get([]byte("consensusStates/" + sub.height().String()))
				if len(subLatestCons) == 0 || !bytes.Equal(got, subLatestCons) {
					vx.Violatef(t, rec, id, "recovered-wrong-consensus-state", "subject %s does not hold the substitute's consensus state at %s", subj.ID, sub.height())
				}
			case *solomachine.ClientState:
				s := subCS.(*solomachine.ClientState)
				if a.IsFrozen {
					vx.Violatef(t, rec, id, "recovered-still-frozen", "solo subject %s still frozen after recovery", subj.ID)
				}
				if a.Sequence != s.Sequence {
					vx.Violatef(t, rec, id, "recovered-wrong-height", "solo subject %s sequence %d, substitute had %d", subj.ID, a.Sequence, s.Sequence)
				}
				if !bytes.Equal(w.App(0).AppCodec().MustMarshal(a.ConsensusState), w.App(0).AppCodec().MustMarshal(s.ConsensusState)) {
					vx.Violatef(t, rec, id, "recovered-wrong-consensus-state", "solo subject %s does not hold the substitute's consensus state", subj.ID)
				}
			}
			if st := k.GetClientStatus(w.Ctx(0), subj.ID); st == exported.Frozen {
				vx.Violatef(t, rec, id, "recovered-still-frozen", "subject %s reports status %s after recovery", subj.ID, st)
			}
		}
		rec.NonTrivialIf(len(failed) <= 1)
	}
}

func genC25(t *rapid.T) c25Case {
	c := c25Case{HRel: 1, HGap: rapid.IntRange(1, 5).Draw(t, "hgap"), DiffArg: rapid.IntRange(0, 599).Draw(t, "diffarg")}
	tl := rapid.SampledFrom([][2]uint64{{1, 3}, {1, 2}, {2, 3}}).Draw(t, "trust")
	c.TrustN, c.TrustD = tl[0], tl[1]
	typ := rapid.SampledFrom([]string{"tm", "tm", "tm", "solo"}).Draw(t, "type")
	fz := func(l string) string { return rapid.SampledFrom([]string{"write", "misb"}).Draw(t, l) }
	// a recoverable pair ...
	c.Subj = c25Side{Type: typ, Status: rapid.SampledFrom([]string{"frozen", "expired"}).Draw(t, "subj-status"), Freeze: fz("subj-freeze"), Updates: rapid.IntRange(0, 2).Draw(t, "subj-upd")}
	c.Sub = c25Side{Type: typ, Status: "active", Freeze: fz("sub-freeze"), Updates: rapid.IntRange(0, 2).Draw(t, "sub-upd")}
	if typ == "solo" {
		c.Subj.Status = "frozen"
		c.Subj.Updates, c.Sub.Updates = 0, 0
	}
	c.Diff = []string{"none", "none", "trusting", "chain-id", "chain-id-rev", "allow-flags"}[upick(t, 6, "exempt-diff")]
	// ... with 0, 1 or 2 gate conditions broken
	c.Perturb = rapid.SampledFrom([]int{0, 1, 1, 1, 1, 2}).Draw(t, "perturb")
	kinds := rapid.Permutation([]string{"subj-active", "sub-status", "type", "height", "param", "same-id"}).Draw(t, "perturb-kinds")
	n := 0
	for _, kind := range kinds {
		if n >= c.Perturb {
			break
		}
		switch kind {
		case "subj-active":
			c.Subj.Status = "active"
		case "sub-status":
			c.Sub.Status = rapid.SampledFrom([]string{"frozen", "expired"}).Draw(t, "sub-status")
			if c.Sub.Type == "solo" {
				c.Sub.Status = "frozen"
			}
		case "type":
			if c.Sub.Type == "tm" {
				c.Sub.Type = "solo"
				if c.Sub.Status == "expired" {
					c.Sub.Status = "active"
				}
			} else {
				c.Sub.Type = "tm"
			}
			c.Sub.Updates = 0
		case "height":
			c.HRel = []int{0, 0, -1}[upick(t, 3, "hrel")]
		case "param":
			c.Diff = []string{"trust-level", "unbonding", "drift", "proof-specs", "upgrade-path"}[upick(t, 5, "diff")]
		case "same-id":
			if rapid.IntRange(0, 3).Draw(t, "same-id") != 0 {
				continue
			}
			c.SameID = true
		}
		n++
	}
	if c.Subj.Type == "solo" && c.Subj.Status == "expired" {
		c.Subj.Status = "frozen"
	}
	if c.Subj.Type == "solo" && c.Sub.Type == "solo" {
		c.SoloKey = rapid.IntRange(0, 3).Draw(t, "solo-same-key") == 0
	}
	return c
}

func TestC25Recover(t *testing.T) {
	vx.Check(t, vx.Prop[c25Case]{
		ID: "C25",
		Rule: "subject/substitute pairs built from a recoverable pair (subject frozen|expired, substitute active, same type, greater height, only exempt parameters differing) with 0,1 or 2 gate conditions broken " +
			"(status^2 over active/frozen/expired, frozen by write or by misbehaviour, tendermint|solomachine, heights <,=,>, one differing parameter, subject==substitute); a tendermint and a solo-machine bystander always present; " +
			"non-trivial = at most one gate condition broken (0: the full post-condition oracle runs; 1: a near miss); distinctness keyed on the case JSON",
		MinNTFrac: 0.6,
		Assumptions: []string{
			"the recovery message is handed to the IBC msg server directly on a cache context written only on success (no key exists for the gov module account)",
			"client status used by the gate is the harness' construction record; it is cross-checked against the chain and a disagreement discards the case (C21 judges the status function)",
			"solo machines cannot expire; a same-public-key substitute is rejected by the solo machine client and is not counted against the health metric",
		},
		Gen: genC25, Run: runC25(t)})
}
