package ica

import (
	"fmt"
	"testing"
	"time"

	"github.com/cosmos/gogoproto/proto"
	"pgregory.net/rapid"

	sdkmath "cosmossdk.io/math"

	sdk "github.com/cosmos/cosmos-sdk/types"
	"github.com/cosmos/cosmos-sdk/x/authz"
	banktypes "github.com/cosmos/cosmos-sdk/x/bank/types"
	distrtypes "github.com/cosmos/cosmos-sdk/x/distribution/types"
	stakingtypes "github.com/cosmos/cosmos-sdk/x/staking/types"

	icahosttypes "github.com/cosmos/ibc-go/v11/modules/apps/27-interchain-accounts/host/types"
	icatypes "github.com/cosmos/ibc-go/v11/modules/apps/27-interchain-accounts/types"
	clienttypes "github.com/cosmos/ibc-go/v11/modules/core/02-client/types"
	ibctesting "github.com/cosmos/ibc-go/v11/testing"

	"github.com/cosmos/ibc-go/v11/modules/apps/callbacks/verifx/sim"
	"github.com/cosmos/ibc-go/v11/modules/apps/callbacks/verifx/vx"
)

// C37: an interchain-account host executes a packet's messages only if every message type
// is on the host allow list and every signer of every message is the interchain account
// registered for the packet's (connection, controller port); all messages take effect or
// none; no message acts on behalf of another account.
//
// Two owners register an interchain account each over one connection. Packets carrying
// generated message lists are sent on one of the two channels (MsgSendTx signed by the
// owner, or a direct ChannelKeeper.SendPacket on the controller port) and relayed to the
// host. The oracle is an independent sequential ledger model of the message list plus the
// host-chain ledger diff (all balances of non-module accounts, bonded tokens per delegator)
// across the single block that carries the receive transaction.

// c37Msg is one message of an interchain-account transaction, as plain data.
type c37Msg struct {
	K     string  `json:"k"`               // send | msend | deleg | exec | setwd
	From  int     `json:"from"`            // 0: the channel's own ICA; 1..3: host account; 9: the OTHER owner's ICA
	To    int     `json:"to"`              // 0: own ICA; 4..6: host account; 9: other ICA
	Amt   int64   `json:"amt"`             // 0 is invalid; > funds fails at execution
	Stake bool    `json:"stake,omitempty"` // denom: stake instead of the secondary denom
	In    *c37Msg `json:"in,omitempty"`    // exec: the wrapped message (grantee = From)
}

type c37Pkt struct {
	Ch     int      `json:"ch"`     // which owner's channel (0/1)
	Allow  int      `json:"allow"`  // index into c37AllowLists, set before the packet is received
	Direct bool     `json:"direct"` // true: direct ChannelKeeper.SendPacket; false: MsgSendTx signed by the owner
	Msgs   []c37Msg `json:"msgs"`
}

type c37Case struct {
	Ordered bool     `json:"ordered"`
	JSON    bool     `json:"json"` // proto3json instead of proto3 encoding
	Pkts    []c37Pkt `json:"pkts"`
}

const c37Funds = 1000

var (
	urlSend  = sdk.MsgTypeURL(&banktypes.MsgSend{})
	urlMSend = sdk.MsgTypeURL(&banktypes.MsgMultiSend{})
	urlDeleg = sdk.MsgTypeURL(&stakingtypes.MsgDelegate{})
	urlExec  = sdk.MsgTypeURL(&authz.MsgExec{})
	urlSetWD = sdk.MsgTypeURL(&distrtypes.MsgSetWithdrawAddress{})

	c37AllowLists = [][]string{
		{icahosttypes.AllowAllHostMsgs},
		{urlSend},
		{urlSend, urlDeleg},
		{urlSend, urlExec},
		{urlSend, urlMSend, urlDeleg, urlExec},
		{urlDeleg, urlMSend},
		{},
	}
	c37KindURL = map[string]string{"send": urlSend, "msend": urlMSend, "deleg": urlDeleg, "exec": urlExec, "setwd": urlSetWD}
)

func allowed(list []string, url string) bool {
	if len(list) == 1 && list[0] == icahosttypes.AllowAllHostMsgs {
		return true
	}
	for _, u := range list {
		if u == url {
			return true
		}
	}
	return false
}

func genC37Msg(t *rapid.T, inner bool) c37Msg {
	kinds := []string{"send", "send", "send", "msend", "deleg", "deleg", "exec", "exec", "setwd"}
	if inner {
		kinds = []string{"send", "send", "deleg", "msend"}
	}
	m := c37Msg{K: rapid.SampledFrom(kinds).Draw(t, "kind")}
	m.From = rapid.SampledFrom([]int{0, 0, 0, 0, 0, 0, 0, 1, 2, 3, 9}).Draw(t, "from")
	m.To = rapid.SampledFrom([]int{0, 4, 4, 5, 6, 9}).Draw(t, "to")
	switch rapid.IntRange(0, 11).Draw(t, "amtkind") {
	case 0:
		m.Amt = 0
	case 1, 2:
		m.Amt = c37Funds + int64(rapid.IntRange(1, 4000).Draw(t, "huge"))
	default:
		m.Amt = int64(rapid.IntRange(1, 40).Draw(t, "amt"))
	}
	m.Stake = rapid.Bool().Draw(t, "stake")
	if m.K == "deleg" {
		m.Stake = true
	}
	if m.K == "exec" {
		in := genC37Msg(t, true)
		m.In = &in
	}
	return m
}

// genGoodMsg draws a message the model expects to succeed on a funded account under "*".
func genGoodMsg(t *rapid.T, inner bool) c37Msg {
	kinds := []string{"send", "send", "send", "msend", "deleg", "deleg", "exec", "exec", "setwd"}
	if inner {
		kinds = []string{"send", "send", "deleg", "msend"}
	}
	m := c37Msg{K: rapid.SampledFrom(kinds).Draw(t, "kind"), From: 0}
	m.To = rapid.SampledFrom([]int{0, 4, 4, 5, 6, 9}).Draw(t, "to")
	m.Amt = int64(rapid.IntRange(1, 40).Draw(t, "amt"))
	m.Stake = rapid.Bool().Draw(t, "stake") || m.K == "deleg"
	if m.K == "exec" {
		in := genGoodMsg(t, true)
		m.In = &in
	}
	return m
}

// injectFault turns a good message into one that is unauthorized or fails at execution.
func injectFault(t *rapid.T, m *c37Msg) {
	foreign := rapid.SampledFrom([]int{1, 2, 3, 9})
	switch rapid.IntRange(0, 5).Draw(t, "fault") {
	case 0, 1: // foreign top-level signer
		m.From = foreign.Draw(t, "foreign")
	case 2: // exceeds the funds of the account
		tgt := m
		if m.In != nil {
			tgt = m.In
		}
		tgt.Amt = c37Funds + int64(rapid.IntRange(1, 4000).Draw(t, "huge"))
		if tgt.K == "setwd" {
			tgt.K = "send"
		}
	case 3: // invalid amount
		tgt := m
		if m.In != nil {
			tgt = m.In
		}
		tgt.Amt = 0
		if tgt.K == "setwd" {
			tgt.K = "send"
		}
	default: // authz exec (signed by the ICA) wrapping a message of a foreign signer
		in := genGoodMsg(t, true)
		in.From = foreign.Draw(t, "innerforeign")
		m.K, m.In = "exec", &in
	}
}

func genC37(t *rapid.T) c37Case {
	c := c37Case{Ordered: rapid.Bool().Draw(t, "ordered"), JSON: rapid.Bool().Draw(t, "json")}
	np := rapid.IntRange(1, 4).Draw(t, "npkts")
	for i := 0; i < np; i++ {
		p := c37Pkt{Ch: rapid.IntRange(0, 1).Draw(t, "ch"), Direct: rapid.IntRange(0, 2).Draw(t, "direct") == 0}
		p.Allow = rapid.SampledFrom([]int{0, 0, 0, 0, 0, 0, 4, 4, 4, 4, 1, 2, 3, 5, 6}).Draw(t, "allow")
		n := rapid.SampledFrom([]int{1, 2, 2, 3, 3, 4}).Draw(t, "nmsgs")
		if rapid.IntRange(0, 4).Draw(t, "freeform") == 0 {
			for j := 0; j < n; j++ {
				p.Msgs = append(p.Msgs, genC37Msg(t, false))
			}
		} else {
			for j := 0; j < n; j++ {
				p.Msgs = append(p.Msgs, genGoodMsg(t, false))
			}
			nf := rapid.SampledFrom([]int{0, 0, 0, 0, 0, 1, 1, 1, 1, 1, 2}).Draw(t, "nfaults")
			for f := 0; f < nf; f++ {
				injectFault(t, &p.Msgs[rapid.IntRange(0, n-1).Draw(t, "faultpos")])
			}
		}
		c.Pkts = append(c.Pkts, p)
	}
	return c
}

// c37World resolves the symbolic parties of a case.
type c37World struct {
	e    *env
	ica  [2]sdk.AccAddress
	link [2]*sim.Link
	val  string
	lab  labels
}

func (x *c37World) party(ch, code int) (sdk.AccAddress, string) {
	switch {
	case code == 0:
		return x.ica[ch], fmt.Sprintf("ica%d", ch)
	case code == 9:
		return x.ica[1-ch], fmt.Sprintf("ica%d", 1-ch)
	default:
		return x.e.w.Addr(hostc, code), fmt.Sprintf("h%d", code)
	}
}

func denomOf(m c37Msg) string {
	if m.Stake {
		return sdk.DefaultBondDenom
	}
	return ibctesting.SecondaryDenom
}

// build turns the plain-data message into an sdk.Msg for channel ch.
func (x *c37World) build(ch int, m c37Msg) sdk.Msg {
	from, _ := x.party(ch, m.From)
	to, _ := x.party(ch, m.To)
	coin := sdk.Coin{Denom: denomOf(m), Amount: sdkmath.NewInt(m.Amt)}
	switch m.K {
	case "send":
		return &banktypes.MsgSend{FromAddress: from.String(), ToAddress: to.String(), Amount: sdk.Coins{coin}}
	case "msend":
		return &banktypes.MsgMultiSend{Inputs: []banktypes.Input{{Address: from.String(), Coins: sdk.Coins{coin}}},
			Outputs: []banktypes.Output{{Address: to.String(), Coins: sdk.Coins{coin}}}}
	case "deleg":
		return &stakingtypes.MsgDelegate{DelegatorAddress: from.String(), ValidatorAddress: x.val, Amount: coin}
	case "setwd":
		return &distrtypes.MsgSetWithdrawAddress{DelegatorAddress: from.String(), WithdrawAddress: to.String()}
	case "exec":
		inner := x.build(ch, *m.In)
		ex := authz.NewMsgExec(from, []sdk.Msg{inner})
		return &ex
	}
	vx.Harnessf("unknown message kind %q", m.K)
	return nil
}

// c37Model is the reference ledger: it applies a message list sequentially to a copy of
// the modelled balances and reports the first failing position (-1: all succeed).
type c37Model struct {
	bal map[string]int64 // "<party>/<denom>" for the two interchain accounts
}

func (md *c37Model) apply(x *c37World, ch int, m c37Msg, eff map[string]int64) bool {
	_, from := x.party(ch, m.From)
	_, to := x.party(ch, m.To)
	signerIsICA := m.From == 0
	switch m.K {
	case "setwd":
		return signerIsICA
	case "exec":
		// authz executes a wrapped message without a grant only when its signer is the grantee
		if !signerIsICA || m.In == nil || m.In.From != 0 {
			return false
		}
		return md.apply(x, ch, *m.In, eff)
	}
	if !signerIsICA || m.Amt <= 0 {
		return false
	}
	k := from + "/" + denomOf(m)
	if md.bal[k] < m.Amt {
		return false
	}
	md.bal[k] -= m.Amt
	eff["bal/"+k] -= m.Amt
	if m.K == "deleg" {
		eff["bonded/"+from] += m.Amt
		return true
	}
	tk := to + "/" + denomOf(m)
	if _, tracked := md.bal[tk]; tracked {
		md.bal[tk] += m.Amt
	}
	eff["bal/"+tk] += m.Amt
	return true
}

func runC37(outer *testing.T) func(t rapid.TB, c c37Case, rec *vx.Case) {
	return func(t rapid.TB, c c37Case, rec *vx.Case) {
		const id = "C37"
		e := newEnv(outer, 1)
		w := e.w
		x := &c37World{e: e, lab: e.hostLabels()}
		enc := icatypes.EncodingProtobuf
		if c.JSON {
			enc = icatypes.EncodingProto3JSON
		}
		for ch := 0; ch < 2; ch++ {
			x.link[ch], x.ica[ch] = e.openICA(0, ch, c.Ordered, enc)
			x.lab[x.ica[ch].String()] = fmt.Sprintf("ica%d", ch)
		}
		if x.ica[0].Equals(x.ica[1]) {
			vx.Violatef(t, rec, id, "shared-account", "two owners on one connection were given the same interchain account %s", x.ica[0])
		}
		x.val = sdk.ValAddress(w.Chains[hostc].Vals.Validators[0].Address).String()
		fund := sdk.Coins{sdk.NewInt64Coin(ibctesting.SecondaryDenom, c37Funds), sdk.NewInt64Coin(sdk.DefaultBondDenom, c37Funds)}.Sort()
		md := &c37Model{bal: map[string]int64{}}
		for ch := 0; ch < 2; ch++ {
			if res := w.Deliver(hostc, funder, banktypes.NewMsgSend(w.Addr(hostc, funder), x.ica[ch], fund)); !res.OK {
				vx.Harnessf("funding the interchain account failed: %v", res.Err)
			}
			md.bal[fmt.Sprintf("ica%d/%s", ch, ibctesting.SecondaryDenom)] = c37Funds
			md.bal[fmt.Sprintf("ica%d/%s", ch, sdk.DefaultBondDenom)] = c37Funds
		}
		rec.Class("order-%v", map[bool]string{true: "ordered", false: "unordered"}[c.Ordered])
		rec.Class("enc-%s", enc)

		nt := false
		for pi, p := range c.Pkts {
			ch := p.Ch & 1
			allow := c37AllowLists[p.Allow%len(c37AllowLists)]
			w.App(hostc).ICAHostKeeper.SetParams(w.Ctx(hostc), icahosttypes.NewParams(true, allow))
			w.Block(hostc, 1)

			// ---- reference model
			unauthPos, unauthWhy := -1, ""
			for i, m := range p.Msgs {
				if m.From != 0 {
					unauthPos, unauthWhy = i, "foreign-signer"
					break
				}
				if !allowed(allow, c37KindURL[m.K]) {
					unauthPos, unauthWhy = i, "type-not-allowed"
					break
				}
			}
			expect := map[string]int64{}
			failPos := -1
			if unauthPos < 0 {
				trial := &c37Model{bal: map[string]int64{}}
				for k, v := range md.bal {
					trial.bal[k] = v
				}
				for i, m := range p.Msgs {
					if !trial.apply(x, ch, m, expect) {
						failPos = i
						break
					}
				}
				if failPos < 0 {
					md = trial
				} else {
					expect = map[string]int64{}
				}
			}
			mustFail := unauthPos >= 0 || failPos >= 0
			expDelta := map[string]sdkmath.Int{}
			for k, v := range expect {
				if v != 0 {
					expDelta[k] = sdkmath.NewInt(v)
				}
			}

			// ---- send on the controller
			msgs := make([]proto.Message, len(p.Msgs))
			for i, m := range p.Msgs {
				msgs[i] = x.build(ch, m)
			}
			bz, err := icatypes.SerializeCosmosTx(w.App(ctrl).AppCodec(), msgs, enc)
			if err != nil {
				vx.Harnessf("SerializeCosmosTx: %v", err)
			}
			data := icatypes.InterchainAccountPacketData{Type: icatypes.EXECUTE_TX, Data: bz}
			var pkt *sim.Pkt
			if p.Direct {
				ts := uint64(w.Ctx(ctrl).BlockTime().UnixNano()) + uint64(time.Hour)
				var err error
				if pkt, err = w.SendV1(x.link[ch], 0, clienttypes.ZeroHeight(), ts, data.GetBytes()); err != nil {
					vx.Harnessf("direct SendPacket on the controller port failed: %v", err)
				}
				rec.Class("via-direct-send")
			} else {
				res := e.sendTx(ch, 0, e.addr(ctrl, ch), uint64(time.Hour), data)
				if !res.OK {
					vx.Harnessf("owner-signed MsgSendTx failed: %v", res.Err)
				}
				if pkt = e.notePacket(x.link[ch], res); pkt == nil {
					vx.Harnessf("MsgSendTx emitted no packet")
				}
				rec.Class("via-msgsendtx")
			}

			// ---- receive on the host, bracketed by ledger snapshots
			h := w.FreshHeight(x.link[ch], 1, relayer)
			recv := w.BuildRecv(pkt, h, relayer)

			// dry run of the host keeper alone on a throw-away branch of the host state: the
			// keeper's own per-packet cache context must already give all-or-nothing (core's
			// RecvPacket additionally discards application writes on error acknowledgements)
			{
				dctx, _ := w.Ctx(hostc).CacheContext()
				db := e.ledgerAt(dctx, hostc, x.lab)
				_, derr := w.App(hostc).ICAHostKeeper.OnRecvPacket(dctx, pkt.P1)
				dd := delta(db, e.ledgerAt(dctx, hostc, x.lab))
				ddesc := fmt.Sprintf("direct HostKeeper.OnRecvPacket of packet %d, allow=%v, msgs=%+v: err=%v, ledger diff %s", pi, allow, p.Msgs, derr, fmtDelta(dd))
				switch {
				case derr != nil && len(dd) > 0:
					vx.Violatef(t, rec, id, "keeper-error-with-state-change", "the keeper returned an error but left writes behind; %s", ddesc)
				case derr == nil && unauthPos >= 0:
					vx.Violatef(t, rec, id, "keeper-executed-unauthorized-"+unauthWhy, "message %d is unauthorized; %s", unauthPos, ddesc)
				case derr == nil && failPos >= 0:
					vx.Violatef(t, rec, id, "keeper-executed-failing-list", "message %d must fail; %s", failPos, ddesc)
				case derr == nil && !sameDelta(dd, expDelta):
					vx.Violatef(t, rec, id, "keeper-effect-not-all-or-nothing", "want %s; %s", fmtDelta(expDelta), ddesc)
				}
				rec.Add("keeper_dry_runs", 1)
			}
			before := e.ledger(hostc, x.lab)
			res := w.Deliver(hostc, relayer, recv)
			after := e.ledger(hostc, x.lab)
			if !res.OK {
				vx.Harnessf("honest MsgRecvPacket failed: %v", res.Err)
			}
			ack, ok := ackOf(res)
			if !ok {
				vx.Harnessf("receive transaction wrote no acknowledgement")
			}
			d := delta(before, after)
			desc := fmt.Sprintf("packet %d on channel of owner %d, allow=%v, msgs=%+v: ack success=%v, ledger diff %s", pi, ch, allow, p.Msgs, ack.Success(), fmtDelta(d))

			// nobody but the packet's own interchain account may lose anything
			own := fmt.Sprintf("ica%d", ch)
			for k, v := range d {
				if v.IsNegative() && k != "bal/"+own+"/"+sdk.DefaultBondDenom && k != "bal/"+own+"/"+ibctesting.SecondaryDenom {
					vx.Violatef(t, rec, id, "foreign-account-debited", "%s decreased; %s", k, desc)
				}
			}
			switch {
			case unauthPos >= 0:
				rec.Class("model-unauthorized-%s", unauthWhy)
				rec.Class("fault-at-pos-%d-of-%d", unauthPos, len(p.Msgs))
				if ack.Success() {
					vx.Violatef(t, rec, id, "unauthorized-executed-"+unauthWhy, "message %d is unauthorized (%s) but the packet was executed; %s", unauthPos, unauthWhy, desc)
				}
				if len(d) > 0 {
					vx.Violatef(t, rec, id, "unauthorized-state-change-"+unauthWhy, "message %d is unauthorized (%s) but host state changed; %s", unauthPos, unauthWhy, desc)
				}
			case failPos >= 0:
				rec.Class("model-exec-failure")
				rec.Class("fault-at-pos-%d-of-%d", failPos, len(p.Msgs))
				if len(d) > 0 {
					vx.Violatef(t, rec, id, "partial-execution", "message %d must fail, yet host state changed; %s", failPos, desc)
				}
				if ack.Success() {
					vx.Violatef(t, rec, id, "failing-list-acked-success", "message %d must fail, yet the acknowledgement is a success; %s", failPos, desc)
				}
			default:
				rec.Class("model-all-succeed")
				if ack.Success() {
					rec.Add("accepted_as_modelled", 1)
					if !sameDelta(d, expDelta) {
						vx.Violatef(t, rec, id, "effect-not-all-or-nothing", "success acknowledgement but the ledger diff is not the effect of the whole list: want %s; %s", fmtDelta(expDelta), desc)
					}
				} else {
					rec.Add("rejected_though_model_accepts", 1)
					if len(d) > 0 {
						vx.Violatef(t, rec, id, "error-ack-state-change", "error acknowledgement but host state changed; %s", desc)
					}
				}
			}
			if !ack.Success() {
				rec.Add("error_acks", 1)
			}
			rec.Add("packets", 1)
			rec.Class("len-%d", len(p.Msgs))
			if allowed(allow, "x") {
				rec.Class("allow-wildcard")
			} else {
				rec.Class("allow-subset")
			}
			hasForeign := false
			for _, m := range p.Msgs {
				if m.From != 0 || (m.In != nil && m.In.From != 0) {
					hasForeign = true
				}
			}
			if len(p.Msgs) >= 2 && (hasForeign || (unauthPos < 0 && failPos >= 1)) {
				nt = true
			}
			if mustFail {
				rec.Add("model_must_fail", 1)
			}
		}
		rec.NonTrivialIf(nt)
	}
}

func TestC37(t *testing.T) {
	vx.Check(t, vx.Prop[c37Case]{
		ID: "C37",
		Rule: "two owners' ICA channels (ORDERED/UNORDERED, proto3/proto3json) on one connection; 1-4 packets of 1-4 messages from {MsgSend, MsgMultiSend, MsgDelegate, authz MsgExec(wrapped msg), MsgSetWithdrawAddress} with signer in {own ICA, host accounts, the other owner's ICA}, amounts {valid, zero, exceeding funds}, allow list in {*, 5 subsets, empty} reset per packet, sent by MsgSendTx or direct SendPacket; " +
			"non-trivial = some packet of >=2 messages that has a foreign signer (top level or wrapped) or whose first failing message follows a succeeding one; distinct by full case",
		MinNTFrac: 0.4,
		Gen:       genC37,
		Run:       runC37(t),
	})
}
