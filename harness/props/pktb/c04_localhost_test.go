package pktb

import (
	"testing"
	"time"

	"pgregory.net/rapid"

	sdk "github.com/cosmos/cosmos-sdk/types"

	clienttypes "github.com/cosmos/ibc-go/v11/modules/core/02-client/types"
	channeltypes "github.com/cosmos/ibc-go/v11/modules/core/04-channel/types"
	"github.com/cosmos/ibc-go/v11/modules/core/exported"
	localhost "github.com/cosmos/ibc-go/v11/modules/light-clients/09-localhost"
	ibctesting "github.com/cosmos/ibc-go/v11/testing"
	"github.com/cosmos/ibc-go/v11/testing/mock"

	"github.com/cosmos/ibc-go/v11/modules/apps/callbacks/verifx/pktsim"
	"github.com/cosmos/ibc-go/v11/modules/apps/callbacks/verifx/sim"
	"github.com/cosmos/ibc-go/v11/modules/apps/callbacks/verifx/vx"
)

// C04 (ii): localhost loopback. One chain, a channel pair over connection-localhost,
// packets with timeouts in the future, MsgTimeout / MsgRecvPacket with the sentinel proof
// and an arbitrary relayer-chosen proof height. A timeout must not be accepted before the
// chain ITSELF has reached the packet's timeout.

const (
	sigLHHeight = "localhost-early-timeout-height"
	sigLHTime   = "localhost-early-timeout-timestamp"
)

type lhOp struct {
	K   string `json:"k"`             // send timeout recv block time
	D   int    `json:"d,omitempty"`   // send: direction
	P   int    `json:"p,omitempty"`   // packet index
	Sig int    `json:"sig,omitempty"` // signer
	TH  int    `json:"th,omitempty"`  // send: 0 none, else timeout height = (height of the sending block) + TH
	TR  int    `json:"tr,omitempty"`  // send: revision number of the timeout height (0 means the chain's own revision)
	TT  int    `json:"tt,omitempty"`  // send: 0 none, else timeout timestamp = now + TT seconds
	TN  int    `json:"tn,omitempty"`  // send: nanosecond adjustment of the timeout timestamp
	PH  int    `json:"ph,omitempty"`  // relay: proof height mode (see proofHeight)
	PD  int    `json:"pd,omitempty"`  // relay: proof height delta
	N   int    `json:"n,omitempty"`   // block: count; time: milliseconds
}

type lhCase struct {
	Ordered bool   `json:"ordered"`
	Demo    bool   `json:"demo,omitempty"` // deterministic re-demonstration: never skip the known region
	Ops     []lhOp `json:"ops"`
}

type lhWorld struct {
	w    *sim.World
	ck   *blockClock
	link *sim.Link
	rev  uint64
}

func newLocalhostWorld(outer *testing.T, ordered bool) *lhWorld {
	w, cks := newClockWorld(outer, 1)
	lw := &lhWorld{w: w, ck: cks[0], rev: clienttypes.ParseChainID(w.Chains[0].ChainID)}
	order, kind := channeltypes.UNORDERED, sim.V1Unordered
	if ordered {
		order, kind = channeltypes.ORDERED, sim.V1Ordered
	}
	signer := w.Addr(0, 0).String()
	port := ibctesting.MockPort
	hops := []string{exported.LocalhostConnectionID}
	anyH := clienttypes.NewHeight(lw.rev, 1)
	must := func(what string, msg sdk.Msg) sim.TxResult {
		res := w.Deliver(0, 0, msg)
		if !res.OK {
			vx.Harnessf("localhost handshake %s failed: %v", what, res.Err)
		}
		return res
	}
	res := must("init", channeltypes.NewMsgChannelOpenInit(port, mock.Version, order, hops, port, signer))
	chA, err := ibctesting.ParseChannelIDFromEvents(res.Events)
	if err != nil {
		vx.Harnessf("no channel id in init events: %v", err)
	}
	res = must("try", channeltypes.NewMsgChannelOpenTry(port, mock.Version, order, hops, port, chA, mock.Version, localhost.SentinelProof, anyH, signer))
	chB, err := ibctesting.ParseChannelIDFromEvents(res.Events)
	if err != nil {
		vx.Harnessf("no channel id in try events: %v", err)
	}
	must("ack", channeltypes.NewMsgChannelOpenAck(port, chA, chB, mock.Version, localhost.SentinelProof, anyH, signer))
	must("confirm", channeltypes.NewMsgChannelOpenConfirm(port, chB, localhost.SentinelProof, anyH, signer))

	p := ibctesting.NewPath(w.Chains[0], w.Chains[0])
	p.EndpointA.ChannelID, p.EndpointB.ChannelID = chA, chB
	p.EndpointA.ConnectionID, p.EndpointB.ConnectionID = exported.LocalhostConnectionID, exported.LocalhostConnectionID
	p.EndpointA.ClientID, p.EndpointB.ClientID = exported.LocalhostClientID, exported.LocalhostClientID
	lw.link = &sim.Link{Idx: len(w.Links), Kind: kind, Chain: [2]int{0, 0}, Path: p}
	w.Links = append(w.Links, lw.link)
	return lw
}

// cmpHeight is an independent lexicographic comparison of (revision, height) pairs.
func cmpHeight(ar, ah, br, bh uint64) int {
	switch {
	case ar < br:
		return -1
	case ar > br:
		return 1
	case ah < bh:
		return -1
	case ah > bh:
		return 1
	}
	return 0
}

// reached reports whether a chain at (rev, height, timeNs) has reached the v1 timeout.
func reachedV1(p channeltypes.Packet, rev, height uint64, timeNs int64) bool {
	th := p.TimeoutHeight
	if !(th.RevisionNumber == 0 && th.RevisionHeight == 0) && cmpHeight(rev, height, th.RevisionNumber, th.RevisionHeight) >= 0 {
		return true
	}
	return p.TimeoutTimestamp != 0 && timeNs >= 0 && uint64(timeNs) >= p.TimeoutTimestamp
}

func (lw *lhWorld) proofHeight(op lhOp, p *sim.Pkt) clienttypes.Height {
	next := uint64(lw.w.Chains[0].ProposedHeader.Height)
	th := p.P1.TimeoutHeight
	add := func(base uint64, d int) uint64 {
		if d < 0 && uint64(-d) > base {
			return 0
		}
		return uint64(int64(base) + int64(d))
	}
	switch pick(6, op.PH) {
	case 0:
		return clienttypes.ZeroHeight()
	case 1:
		return clienttypes.NewHeight(lw.rev, add(next, op.PD))
	case 2:
		if th.IsZero() {
			return clienttypes.NewHeight(lw.rev, add(next, op.PD))
		}
		return clienttypes.NewHeight(th.RevisionNumber, add(th.RevisionHeight, op.PD))
	case 3:
		base := next
		if th.RevisionHeight > base {
			base = th.RevisionHeight
		}
		r := lw.rev
		if th.RevisionNumber > r {
			r = th.RevisionNumber
		}
		return clienttypes.NewHeight(r, base+1_000_000)
	case 4:
		return clienttypes.NewHeight(lw.rev+1, add(1, op.PD+2))
	default:
		return clienttypes.NewHeight(0, 1<<40)
	}
}

func runC04Localhost(outer *testing.T) func(t rapid.TB, c lhCase, rec *vx.Case) {
	return func(t rapid.TB, c lhCase, rec *vx.Case) {
		const id = "C04"
		lw := newLocalhostWorld(outer, c.Ordered)
		w := lw.w
		known := vx.IsKnown(id, sigLHHeight)
		boundary, race := 0, 0
		triedRecv, triedTO := map[int]bool{}, map[int]bool{}
		for i, op := range c.Ops {
			w.StepNo = i
			switch op.K {
			case "block":
				w.Block(0, 1+pick(2, op.N))
			case "time":
				w.AdvanceTime(time.Duration(1+pick(4000, op.N)) * time.Millisecond)
			case "send":
				next := uint64(w.Chains[0].ProposedHeader.Height)
				th := clienttypes.ZeroHeight()
				if op.TH != 0 {
					r := lw.rev
					if op.TR != 0 {
						r = uint64(op.TR)
					}
					th = clienttypes.NewHeight(r, next+uint64(op.TH))
				}
				var ts uint64
				if op.TT != 0 {
					ts = uint64(w.Coord.CurrentTime.Add(time.Duration(op.TT)*time.Second).UnixNano() + int64(op.TN))
				}
				_, err := w.SendV1(lw.link, pick(2, op.D), th, ts, sim.Script{N: i, Out: "ok"}.Bytes())
				if err == nil {
					rec.Add("sends_ok", 1)
				} else {
					rec.Add("sends_rejected", 1)
				}
			case "recv", "timeout":
				if len(w.Pkts) == 0 {
					continue
				}
				p := w.Pkts[pick(len(w.Pkts), op.P)]
				ph := lw.proofHeight(op, p)
				signer := w.Addr(0, op.Sig).String()
				execH := uint64(w.Chains[0].ProposedHeader.Height)
				nowNs := w.Coord.CurrentTime.UnixNano()
				var msg sdk.Msg
				if op.K == "recv" {
					msg = channeltypes.NewMsgRecvPacket(p.P1, localhost.SentinelProof, ph, signer)
					triedRecv[p.Idx] = true
				} else {
					th := p.P1.TimeoutHeight
					inKnownRegion := !th.IsZero() && !reachedV1(p.P1, lw.rev, execH, nowNs) &&
						cmpHeight(ph.RevisionNumber, ph.RevisionHeight, th.RevisionNumber, th.RevisionHeight) >= 0
					if inKnownRegion && known && !c.Demo {
						// recorded finding: excluded by construction so the search goes on past it
						rec.Add("excluded_known", 1)
						continue
					}
					msg = channeltypes.NewMsgTimeout(p.P1, w.NextSeqRecv(p), localhost.SentinelProof, ph, signer)
					triedTO[p.Idx] = true
				}
				logStart := len(w.Log)
				res := w.Deliver(0, op.Sig, msg)
				bt, ok := lw.ck.At(uint64(res.Height))
				if !ok || uint64(res.Height) != execH || bt != nowNs {
					vx.Harnessf("block clock mismatch: height %d/%d time %d/%d", res.Height, execH, bt, nowNs)
				}
				executed := false
				for _, e := range w.Log[logStart:] {
					if e.Kind == op.K && !e.Reverted && e.Seq == p.P1.Sequence {
						executed = true
					}
				}
				reached := reachedV1(p.P1, lw.rev, execH, bt)
				th := p.P1.TimeoutHeight
				nearH := !th.IsZero() && th.RevisionNumber == lw.rev && execH+1 >= th.RevisionHeight && execH <= th.RevisionHeight+1
				nearT := p.P1.TimeoutTimestamp != 0 && absDiff(uint64(bt), p.P1.TimeoutTimestamp) <= uint64(5*time.Second)
				if nearH || nearT {
					boundary++
					rec.Class("lh-%s-at-boundary", op.K)
				}
				if op.K == "timeout" {
					if executed {
						rec.Add("timeouts_accepted", 1)
						if !reached {
							sig := sigLHTime
							if !th.IsZero() && cmpHeight(ph.RevisionNumber, ph.RevisionHeight, th.RevisionNumber, th.RevisionHeight) >= 0 {
								sig = sigLHHeight
							}
							if vx.Violatef(t, rec, id, sig, "step %d: localhost timeout of %s accepted in block height %d-%d time %d with relayer proof height %s, but the chain itself has not reached the packet timeout (height %s, timestamp %d); commitment still stored: %v",
								i, p, lw.rev, execH, bt, ph, th, p.P1.TimeoutTimestamp, w.HasCommitment(p)) {
								rec.Class("lh-known-early-timeout")
							}
						} else {
							rec.Class("lh-timeout-accepted-sound")
						}
					} else {
						rec.Add("timeouts_rejected", 1)
						if reached && w.HasCommitment(p) {
							rec.Add("timeouts_rejected_though_reached", 1) // converse, health only
						}
					}
				} else {
					if executed {
						rec.Add("recvs_accepted", 1)
						if reached {
							vx.Violatef(t, rec, id, "localhost-recv-after-timeout", "step %d: %s executed in block height %d-%d time %d although its timeout (height %s, timestamp %d) had elapsed", i, p, lw.rev, execH, bt, th, p.P1.TimeoutTimestamp)
						}
					} else {
						rec.Add("recvs_rejected", 1)
					}
				}
			}
			// global invariant: never both executed on the destination end and timed out on the source end
			recvd := pktsim.CommittedSteps(w, "recv")
			tos := pktsim.CommittedSteps(w, "timeout")
			for _, p := range w.Pkts {
				if len(recvd[pktsim.DstKey(w, p)]) > 0 && len(tos[pktsim.SrcKey(w, p)]) > 0 {
					vx.Violatef(t, rec, id, "localhost-recv-and-timeout", "%s was both received (steps %v) and timed out (steps %v)", p, recvd[pktsim.DstKey(w, p)], tos[pktsim.SrcKey(w, p)])
				}
			}
		}
		for idx := range triedTO {
			if triedRecv[idx] {
				race++
			}
		}
		if race > 0 {
			rec.Class("lh-race")
		}
		if c.Ordered {
			rec.Class("lh-ordered")
		} else {
			rec.Class("lh-unordered")
		}
		rec.Add("packets", int64(len(w.Pkts)))
		rec.NonTrivialIf(boundary > 0 || race > 0)
	}
}

func absDiff(a, b uint64) uint64 {
	if a > b {
		return a - b
	}
	return b - a
}

func genLocalhost(t *rapid.T) lhCase {
	c := lhCase{Ordered: rapid.IntRange(0, 3).Draw(t, "ordered") == 0}
	n := rapid.IntRange(4, 26).Draw(t, "nops")
	sends := 0
	for i := 0; i < n; i++ {
		k := rapid.SampledFrom([]string{"send", "send", "timeout", "timeout", "timeout", "timeout", "recv", "recv", "block", "block", "time"}).Draw(t, "kind")
		if sends == 0 {
			k = "send"
		}
		op := lhOp{K: k, Sig: rapid.IntRange(0, 2).Draw(t, "sig")}
		switch k {
		case "send":
			sends++
			op.D = rapid.IntRange(0, 1).Draw(t, "dir")
			switch rapid.IntRange(0, 9).Draw(t, "tokind") {
			case 0, 1, 2, 3: // height only, close
				op.TH = rapid.IntRange(1, 7).Draw(t, "th")
			case 4: // height only, far
				op.TH = rapid.SampledFrom([]int{50, 1000, 1 << 30}).Draw(t, "thfar")
			case 5, 6: // timestamp only
				op.TT = 5 * rapid.IntRange(1, 8).Draw(t, "tt5")
				op.TN = rapid.IntRange(-1, 1).Draw(t, "tn")
			case 7: // both
				op.TH = rapid.IntRange(1, 7).Draw(t, "th")
				op.TT = rapid.IntRange(1, 60).Draw(t, "tt")
			case 8: // other revision numbers
				op.TH = rapid.IntRange(1, 5).Draw(t, "th")
				op.TR = rapid.SampledFrom([]int{2, 2, 7}).Draw(t, "tr")
				if rapid.Bool().Draw(t, "withts") {
					op.TT = rapid.IntRange(5, 40).Draw(t, "tt")
				}
			default: // far timestamp only
				op.TT = rapid.SampledFrom([]int{600, 86400}).Draw(t, "ttfar")
			}
		case "timeout", "recv":
			if rapid.Bool().Draw(t, "recent") {
				op.P = sends - 1 - rapid.IntRange(0, 1).Draw(t, "back")
			} else {
				op.P = rapid.IntRange(0, sends).Draw(t, "pkt")
			}
			op.PH = rapid.IntRange(0, 5).Draw(t, "phmode")
			op.PD = rapid.IntRange(-2, 2).Draw(t, "phdelta")
		case "block":
			op.N = rapid.IntRange(0, 1).Draw(t, "n")
		case "time":
			op.N = rapid.IntRange(0, 3999).Draw(t, "ms")
		}
		c.Ops = append(c.Ops, op)
	}
	return c
}

func TestC04Localhost(t *testing.T) {
	vx.Check(t, vx.Prop[lhCase]{
		ID:        "C04",
		Rule:      "one chain, mock channel pair over connection-localhost (75% UNORDERED / 25% ORDERED); histories of send (height/timestamp/both/other-revision timeouts 1..7 blocks or 5..40 s ahead, some far), timeout and recv with the sentinel proof and relayer proof heights {zero, self+-2, timeout+-2, far future, higher revision, lower revision}, block, sub-second clock steps; non-trivial = a relay message executed within +-1 block (or +-5 s) of its packet's timeout, or a recv/timeout race on one packet; distinct by full history. The recorded finding localhost-early-timeout-height is excluded by construction when it is listed in known_findings.json (metric excluded_known)",
		MinNTFrac: 0.5,
		Gen:       genLocalhost,
		Run:       runC04Localhost(t),
	})
}

// TestC04LocalhostDemo deterministically re-demonstrates the early localhost timeout: a
// packet whose timeout height is 1000 blocks ahead is timed out in the next block with a
// relayer-chosen far-future proof height. It also exercises the timestamp variant (timeout
// timestamp in the future, no timeout height), which must be - and is - rejected because
// 09-localhost reports the chain's own block time for every height.
func TestC04LocalhostDemo(t *testing.T) {
	demo := func(ordered bool) lhCase {
		return lhCase{Ordered: ordered, Demo: true, Ops: []lhOp{
			{K: "send", TH: 1000},
			{K: "send", TT: 86400},
			{K: "send", TH: 1000, TT: 86400},
			{K: "timeout", P: 1, PH: 3}, // timestamp-only packet, far-future proof height: must be rejected
			{K: "timeout", P: 0, PH: 1}, // proof height = own height: must be rejected
			{K: "timeout", P: 0, PH: 3}, // far-future proof height: accepted on the unchanged tree
			{K: "timeout", P: 2, PH: 2}, // proof height = timeout height exactly
		}}
	}
	vx.Check(t, vx.Prop[lhCase]{
		ID:        "C04",
		Rule:      "deterministic localhost sub-case (UNORDERED and ORDERED): packets with timeout height +1000 / timestamp +24h / both, MsgTimeout one block later with proof heights {far future, own height, exactly the timeout height}; always counted non-trivial",
		MinNTFrac: 0,
		Gen: func(t *rapid.T) lhCase {
			return demo(rapid.Bool().Draw(t, "ordered"))
		},
		Run: func(tb rapid.TB, c lhCase, rec *vx.Case) {
			runC04Localhost(t)(tb, c, rec)
			rec.NonTrivial()
		},
	})
}
