package pkta

import (
	"fmt"
	"testing"

	"pgregory.net/rapid"

	"github.com/cosmos/ibc-go/v11/modules/apps/callbacks/verifx/pktsim"
)

func TestDbg(t *testing.T) {
	g := rapid.Custom(genC02(30))
	for k := 0; k < 3; k++ {
		h := g.Example(k + 10)
		fmt.Printf("=== links %v\n", h.Links)
		w := pktsim.NewWorld(t, h)
		for i, op := range h.Ops {
			st := execX(w, i, op)
			s := pktsim.Describe(st)
			if len(s) > 330 {
				s = s[:330]
			}
			fmt.Printf("%d %s %s log=%d\n", i, op.K, s, len(w.Log)-st.LogStart)
		}
	}
}
