package gmpcb

import (
	"encoding/json"
	"errors"
	"fmt"
	"math"
	"strconv"
	"testing"

	"pgregory.net/rapid"

	storetypes "github.com/cosmos/cosmos-sdk/store/v2/types"
	sdk "github.com/cosmos/cosmos-sdk/types"

	"github.com/cosmos/ibc-go/v11/modules/apps/callbacks/internal"
	cbtypes "github.com/cosmos/ibc-go/v11/modules/apps/callbacks/types"
	transfertypes "github.com/cosmos/ibc-go/v11/modules/apps/transfer/types"
	clienttypes "github.com/cosmos/ibc-go/v11/modules/core/02-client/types"
	channeltypes "github.com/cosmos/ibc-go/v11/modules/core/04-channel/types"

	"github.com/cosmos/ibc-go/v11/modules/apps/callbacks/verifx/sim"
	"github.com/cosmos/ibc-go/v11/modules/apps/callbacks/verifx/vx"
)

// C40 (a): direct calls of the callbacks middleware's gas computation and of
// internal.ProcessCallback on a real sdk.Context (store of a real app, real gas meters).
//
// Model (from the property statement):
//
//	commit    = (user == 0 or user > max) ? max : user
//	execLimit = min(remaining, commit)
//	gas charged to the caller's meter by the callback <= execLimit
//	callback fails (error / panic / out of gas)  =>  its writes are absent, and for
//	   acknowledgement, timeout and receive callbacks the failure is returned as an error
//	   (no panic) - except out of gas with execLimit < commit, which must panic (retry).
//	send callbacks: a failure rejects the send (error or panic), writes absent.

type cbAct struct {
	K string `json:"k"` // w: write key #N   g: consume N gas
	N uint64 `json:"n"`
}

type c40dCase struct {
	Type     int     `json:"type"` // 0 send 1 ack 2 timeout 3 recv
	Infinite bool    `json:"infinite,omitempty"`
	Limit    uint64  `json:"limit"` // caller's gas meter limit
	Used     uint64  `json:"used"`  // gas already consumed on it (remaining = limit-used)
	UserForm int     `json:"user_form"`
	User     uint64  `json:"user"`
	Max      uint64  `json:"max"`
	Acts     []cbAct `json:"acts"`
	End      string  `json:"end"` // ok | err | panic
	Swallow  bool    `json:"swallow,omitempty"` // executor recovers its own gas panic and returns an error
	// SwallowNil: executor recovers its own gas panic and reports success (regression:
	// ProcessCallback used to commit such a callback's writes, see TestC40KnownSwallowedOOG).
	SwallowNil bool `json:"swallow_nil,omitempty"`
}

const sigSwallowedOOG = "oog-swallowed-then-success-commits-writes"

var cbTypes = []cbtypes.CallbackType{cbtypes.CallbackTypeSendPacket, cbtypes.CallbackTypeAcknowledgementPacket, cbtypes.CallbackTypeTimeoutPacket, cbtypes.CallbackTypeReceivePacket}

const (
	genWriteFlat    = 2000
	genWritePerByte = 30
)

func c40Key(n uint64) []byte { return sim.AppKey(fmt.Sprintf("c40/k%d", n%4)) }

var c40Val = []byte("v")

func modelCommit(user, max uint64) uint64 {
	if user == 0 || user > max {
		return max
	}
	return user
}

func userOf(c c40dCase) (user uint64, wellFormed bool) {
	switch c.UserForm {
	case 0, 1:
		return 0, true
	case 2, 3:
		return c.User, true
	}
	return 0, false
}

func genC40d(t *rapid.T) c40dCase {
	var c c40dCase
	c.Type = rapid.IntRange(0, 3).Draw(t, "type")
	// chain maximum
	switch rapid.IntRange(0, 5).Draw(t, "maxKind") {
	case 0:
		c.Max = vx.U64().Draw(t, "max")
	case 1:
		c.Max = rapid.SampledFrom([]uint64{0, 1, math.MaxUint64}).Draw(t, "maxConst")
	default:
		c.Max = rapid.Uint64Range(1, 3_000_000).Draw(t, "maxReal")
	}
	// user limit relative to max
	c.UserForm = rapid.SampledFrom([]int{0, 1, 2, 2, 2, 2, 2, 2, 3, 4, 5}).Draw(t, "userForm")
	switch rapid.IntRange(0, 5).Draw(t, "userKind") {
	case 0:
		c.User = vx.Near(t, c.Max, "userNearMax")
	case 1:
		c.User = vx.U64().Draw(t, "user")
	case 2:
		c.User = rapid.SampledFrom([]uint64{0, 1, math.MaxUint64}).Draw(t, "userConst")
	default:
		if c.Max > 1 {
			c.User = rapid.Uint64Range(1, c.Max).Draw(t, "userBelowMax")
		} else {
			c.User = rapid.Uint64Range(0, 100_000).Draw(t, "userSmall")
		}
	}
	user, _ := userOf(c)
	commit := modelCommit(user, c.Max)
	// remaining gas relative to commit
	var remaining uint64
	switch rapid.IntRange(0, 6).Draw(t, "remKind") {
	case 0:
		remaining = vx.Near(t, commit, "remNearCommit")
	case 1:
		remaining = vx.U64().Draw(t, "rem")
	case 2:
		remaining = 0
	case 3:
		if commit > 0 {
			remaining = rapid.Uint64Range(0, commit).Draw(t, "remBelow")
		}
	case 4:
		c.Infinite = true
		remaining = math.MaxUint64
	default:
		remaining = commit
		if extra := rapid.Uint64Range(0, 5_000_000).Draw(t, "remExtra"); remaining+extra >= remaining {
			remaining += extra
		}
	}
	if !c.Infinite {
		c.Used = rapid.SampledFrom([]uint64{0, 0, 1, 12345, 1 << 40}).Draw(t, "used")
		if c.Used > math.MaxUint64-remaining {
			c.Used = math.MaxUint64 - remaining
		}
		c.Limit = remaining + c.Used
	}
	exec := min(remaining, commit)

	// executor script
	nActs := rapid.IntRange(0, 4).Draw(t, "nActs")
	spent := uint64(0)
	for i := 0; i < nActs; i++ {
		if rapid.IntRange(0, 2).Draw(t, "actKind") == 0 {
			n := rapid.Uint64Range(0, 3).Draw(t, "key")
			c.Acts = append(c.Acts, cbAct{K: "w", N: n})
			spent += genWriteFlat + genWritePerByte*uint64(len(c40Key(n))+len(c40Val))
			continue
		}
		var g uint64
		left := uint64(0)
		if exec > spent {
			left = exec - spent
		}
		switch rapid.IntRange(0, 11).Draw(t, "gasKind") {
		case 0:
			g = 0
		case 1:
			g = vx.Near(t, left, "gasNearLeft") // lands on / just over / just under the limit
		case 2:
			if left > 0 {
				g = rapid.Uint64Range(0, left).Draw(t, "gasBelow")
			}
		case 3:
			g = math.MaxUint64 // "consume infinity"
		case 4:
			g = vx.U64().Draw(t, "gasAny")
		case 5:
			// just enough to leave room for exactly one more write, +-1
			w := uint64(genWriteFlat + genWritePerByte*(len(c40Key(0))+len(c40Val)))
			if left > w {
				g = vx.Near(t, left-w, "gasLeaveWrite")
			}
		default:
			g = rapid.Uint64Range(0, 50_000).Draw(t, "gasSmall")
		}
		c.Acts = append(c.Acts, cbAct{K: "g", N: g})
		if spent+g >= spent {
			spent += g
		} else {
			spent = math.MaxUint64
		}
	}
	c.End = rapid.SampledFrom([]string{"ok", "ok", "err", "panic"}).Draw(t, "end")
	switch rapid.IntRange(0, 15).Draw(t, "swallow") {
	case 0, 1:
		c.Swallow = true
	case 2, 3:
		c.SwallowNil = true
	}
	return c
}

// stubUnmarshaler is the packet-data unmarshaler handed to Get{Source,Dest}CallbackData: the
// real ICS-20 decoder without any store access (so it consumes no gas).
type stubUnmarshaler struct{}

func (stubUnmarshaler) UnmarshalPacketData(_ sdk.Context, _, _ string, bz []byte) (any, string, error) {
	d, err := transfertypes.UnmarshalPacketData(bz, transfertypes.V1, "")
	return d, transfertypes.V1, err
}

func c40Memo(c c40dCase, key string) string {
	cb := map[string]any{"address": "contract-address"}
	switch c.UserForm {
	case 1:
		cb["gas_limit"] = ""
	case 2:
		cb["gas_limit"] = strconv.FormatUint(c.User, 10)
	case 3:
		cb["gas_limit"] = "000" + strconv.FormatUint(c.User, 10)
	case 4:
		cb["gas_limit"] = c.User % (1 << 50) // JSON number: must be a string
	case 5:
		cb["gas_limit"] = "18446744073709551616" // 2^64
	}
	b, _ := json.Marshal(map[string]any{key: cb, "other": "x"})
	return string(b)
}

type scriptedPanic struct{}

func runC40d(w *sim.World) func(rapid.TB, c40dCase, *vx.Case) {
	storeKey := w.App(0).GetKey(sim.AppStore)
	return func(t rapid.TB, c c40dCase, rec *vx.Case) {
		const id = "C40"
		cbType := cbTypes[c.Type%4]
		base, _ := w.Ctx(0).CacheContext()
		var meter storetypes.GasMeter
		if c.Infinite {
			meter = storetypes.NewInfiniteGasMeter()
		} else {
			if c.Used > c.Limit {
				vx.Harnessf("used > limit")
			}
			meter = storetypes.NewGasMeter(c.Limit)
			meter.ConsumeGas(c.Used, "earlier work")
		}
		ctx := base.WithGasMeter(meter)
		remaining := uint64(math.MaxUint64)
		if !c.Infinite {
			remaining = c.Limit - c.Used
		}

		// ---- 1. the limits computed by the middleware from (remaining, memo, max)
		key := cbtypes.SourceCallbackKey
		if cbType == cbtypes.CallbackTypeReceivePacket {
			key = cbtypes.DestinationCallbackKey
		}
		pd := transfertypes.FungibleTokenPacketData{Denom: "stake", Amount: "1", Sender: "sender", Receiver: "receiver", Memo: c40Memo(c, key)}
		packet := channeltypes.NewPacket(pd.GetBytes(), 1, "transfer", "channel-0", "transfer", "channel-1", clienttypes.NewHeight(0, 100), 0)
		var data cbtypes.CallbackData
		var isCb bool
		var err error
		if panicked, msg := vx.Recover(func() {
			if key == cbtypes.SourceCallbackKey {
				data, isCb, err = cbtypes.GetSourceCallbackData(ctx, stubUnmarshaler{}, packet, c.Max)
			} else {
				data, isCb, err = cbtypes.GetDestCallbackData(ctx, stubUnmarshaler{}, packet, c.Max)
			}
		}); panicked {
			vx.Violatef(t, rec, id, "callback-data-panic", "computing callback data panicked: %s", msg)
		}
		if !isCb {
			vx.Harnessf("memo %q not recognised as a callback memo", pd.Memo)
		}
		user, wellFormed := userOf(c)
		if !wellFormed {
			rec.Class("malformed-gas-limit")
			if err == nil {
				rec.Add("malformed_accepted", 1)
			} else {
				rec.Add("malformed_rejected", 1)
			}
			return
		}
		if err != nil {
			rec.Add("wellformed_rejected", 1)
			rec.Class("wellformed-rejected")
			return
		}
		commit := modelCommit(user, c.Max)
		exec := min(remaining, commit)
		if data.CommitGasLimit != commit {
			vx.Violatef(t, rec, id, "commit-limit", "commit gas limit %d, want %d (user %d, max %d)", data.CommitGasLimit, commit, user, c.Max)
		}
		if data.ExecutionGasLimit != exec {
			vx.Violatef(t, rec, id, "exec-limit", "execution gas limit %d, want min(remaining %d, commit %d) = %d", data.ExecutionGasLimit, remaining, commit, exec)
		}
		if got := ctx.GasMeter().GasRemaining(); got != remaining {
			vx.Harnessf("computing the callback data consumed gas: %d -> %d", remaining, got)
		}

		// ---- 2. model of the executor script under an execLimit-bounded meter
		cfg := ctx.KVGasConfig()
		var consumed uint64
		execPanics := false // a gas panic inside the script
		reached := 0        // number of actions completed
		for _, a := range c.Acts {
			cost := a.N
			if a.K == "w" {
				cost = cfg.WriteCostFlat + cfg.WriteCostPerByte*uint64(len(c40Key(a.N))+len(c40Val))
			}
			if consumed+cost < consumed { // overflow
				consumed = math.MaxUint64
				execPanics = true
				break
			}
			consumed += cost
			if consumed > exec {
				execPanics = true
				break
			}
			reached++
		}
		pastLimit := consumed > exec
		outcome := c.End // ok | err | panic | oog | gaspanic
		switch {
		case execPanics && pastLimit:
			outcome = "oog"
		case execPanics:
			outcome = "gaspanic" // overflow on a meter that cannot be exceeded
		}
		if c.SwallowNil && execPanics && !pastLimit {
			outcome = "ok" // swallowed an overflow on an unlimited meter and reported success: not a failure
		}
		executorPanics := (execPanics && !c.Swallow && !c.SwallowNil) || (!execPanics && c.End == "panic")
		failed := outcome != "ok"
		retry := exec < commit
		mustPanic := pastLimit && retry

		// ---- 3. run
		var inner sdk.Context
		seenOutcome := ""
		executor := func(cctx sdk.Context) (err error) {
			inner = cctx
			if c.Swallow || c.SwallowNil {
				defer func() {
					if r := recover(); r != nil {
						if _, ok := r.(scriptedPanic); ok {
							panic(r)
						}
						seenOutcome = "gas-panic-swallowed"
						err = errors.New("contract ran out of gas")
						if c.SwallowNil {
							err = nil
						}
					}
				}()
			}
			st := cctx.KVStore(storeKey)
			for _, a := range c.Acts {
				if a.K == "w" {
					st.Set(c40Key(a.N), c40Val)
				} else {
					cctx.GasMeter().ConsumeGas(a.N, "contract work")
				}
			}
			seenOutcome = c.End
			switch c.End {
			case "err":
				return errors.New("contract error")
			case "panic":
				panic(scriptedPanic{})
			}
			return nil
		}
		before := ctx.GasMeter().GasConsumed()
		var cbErr error
		var panicVal any
		func() {
			defer func() { panicVal = recover() }()
			cbErr = internal.ProcessCallback(ctx, cbType, data, executor)
		}()
		if he, ok := panicVal.(vx.HarnessError); ok {
			panic(he)
		}
		charged := ctx.GasMeter().GasConsumed() - before
		panicked := panicVal != nil
		desc := fmt.Sprintf("type=%s remaining=%d user=%d max=%d commit=%d exec=%d acts=%v end=%s swallow=%v modelOutcome=%s -> err=%v panic=%v charged=%d",
			cbType, remaining, user, c.Max, commit, exec, c.Acts, c.End, c.Swallow, outcome, cbErr, panicVal, charged)

		// ---- 4. oracle
		if charged > exec {
			vx.Violatef(t, rec, id, "gas-charged-exceeds-exec-limit", "callback charged %d gas to the caller, limit min(remaining, commit) = %d; %s", charged, exec, desc)
		}
		if inner.GasMeter() != nil && inner.GasMeter().Limit() != exec {
			vx.Violatef(t, rec, id, "callback-meter-limit", "callback ran under a gas limit of %d, want %d; %s", inner.GasMeter().Limit(), exec, desc)
		}
		// the script's progress must agree with the model of an exec-bounded meter
		if !execPanics && seenOutcome != c.End {
			vx.Violatef(t, rec, id, "callback-stopped-early", "callback was stopped although it stayed within the limit (saw %q); %s", seenOutcome, desc)
		}
		if execPanics && seenOutcome == c.End {
			vx.Violatef(t, rec, id, "callback-exceeded-limit", "callback ran to completion although the model says it exceeds the limit; %s", desc)
		}
		// writes
		free := ctx.WithGasMeter(storetypes.NewInfiniteGasMeter())
		present := 0
		written := map[uint64]bool{}
		for i, a := range c.Acts {
			if a.K == "w" && i < reached {
				written[a.N%4] = true
			}
		}
		for n := uint64(0); n < 4; n++ {
			if free.KVStore(storeKey).Has(c40Key(n)) {
				present++
				if failed && c.SwallowNil {
					vx.Violatef(t, rec, id, sigSwallowedOOG, "callback exceeded its gas limit, swallowed the out-of-gas panic and returned nil: ProcessCallback reports %v but key %d written by the callback is visible to the caller; %s", cbErr, n, desc)
				}
				if failed {
					vx.Violatef(t, rec, id, "failed-callback-writes-persist", "key %d written by a failed callback is visible to the caller; %s", n, desc)
				}
				if !written[n] {
					vx.Violatef(t, rec, id, "failed-callback-writes-persist", "key %d visible although the script never completed that write; %s", n, desc)
				}
			}
		}
		if !failed && present != len(written) {
			rec.Add("ok_writes_missing", 1) // not part of the statement; health only
		}
		isSend := cbType == cbtypes.CallbackTypeSendPacket
		switch {
		case mustPanic:
			if !panicked {
				vx.Violatef(t, rec, id, "retry-oog-did-not-abort", "out of gas with execLimit < commit must abort the transaction (panic), got err=%v; %s", cbErr, desc)
			}
			if _, ok := panicVal.(storetypes.ErrorOutOfGas); !ok && panicked && !isSend {
				vx.Violatef(t, rec, id, "retry-oog-did-not-abort", "out of gas with execLimit < commit must abort with an out-of-gas panic, got %T; %s", panicVal, desc)
			}
		case isSend:
			if failed && !panicked && cbErr == nil {
				vx.Violatef(t, rec, id, "send-failure-not-propagated", "failed send callback did not reject the send; %s", desc)
			}
			if !failed && (panicked || cbErr != nil) {
				rec.Add("ok_but_rejected", 1)
			}
			if executorPanics && !panicked {
				rec.Add("send_panic_not_propagated", 1)
			}
		default:
			if panicked {
				vx.Violatef(t, rec, id, "callback-panic-escapes", "%s callback failure must be returned as an error, but ProcessCallback panicked; %s", cbType, desc)
			}
			if failed && cbErr == nil {
				vx.Violatef(t, rec, id, "failure-reported-as-success", "failed callback reported success; %s", desc)
			}
			if !failed && cbErr != nil {
				rec.Add("ok_but_rejected", 1)
			}
		}

		rec.Class("%s/%s", cbType, outcome)
		if retry {
			rec.Class("retry(exec<commit)/%s", outcome)
		}
		if c.Swallow && execPanics {
			rec.Class("gas-panic-swallowed")
		}
		if c.SwallowNil && execPanics {
			rec.Class("gas-panic-swallowed-returns-nil/%s", outcome)
		}
		switch {
		case user == 0:
			rec.Class("user=0")
		case user > c.Max:
			rec.Class("user>max")
		case user == c.Max:
			rec.Class("user=max")
		default:
			rec.Class("user<max")
		}
		if charged == exec && exec > 0 {
			rec.Class("charged=execLimit")
		}
		rec.Add("charged_le_exec", 1)
		rec.NonTrivialIf(failed || remaining < commit)
	}
}

func TestC40Direct(t *testing.T) {
	w := sim.NewWorld(t, 1, nil)
	vx.Check(t, vx.Prop[c40dCase]{
		ID:        "C40",
		Rule:      "ProcessCallback called directly: callback type x (remaining, user limit via memo JSON, chain max) incl. 0/equal/+-1/huge/infinite meter x executor script (KV writes, gas amounts placed around the limit, consume-infinity; success/error/panic; optionally swallowing its own gas panic into an error or into success); non-trivial = executor fails or remaining < commit; distinct by full case",
		MinNTFrac: 0.4,
		Gen:       genC40d,
		Run:       runC40d(w),
	})
}

// TestC40KnownSwallowedOOG is a deterministic regression sub-case: a callback that exceeds its
// gas limit, recovers the out-of-gas panic itself and returns nil. ProcessCallback used to
// commit the callback's writes (writeFn ran because the executor returned nil) and only
// afterwards noticed the exceeded meter and reported ErrCallbackOutOfGas - "ran out of gas"
// without "state changes discarded". Repaired in /repo by checking IsPastLimit before writeFn.
func TestC40KnownSwallowedOOG(t *testing.T) {
	w := sim.NewWorld(t, 1, nil)
	fixed := c40dCase{Type: 1, Limit: 10_000_000, UserForm: 2, User: 100_000, Max: 1_000_000,
		Acts: []cbAct{{K: "w", N: 0}, {K: "g", N: 200_000}}, End: "ok", SwallowNil: true}
	vx.Check(t, vx.Prop[c40dCase]{
		ID:        "C40",
		Rule:      "deterministic regression sub-case (executor swallows its own out-of-gas panic and returns nil) for ack and timeout callbacks; every case non-trivial",
		MinNTFrac: 0,
		Gen: func(rt *rapid.T) c40dCase {
			c := fixed
			c.Type = rapid.SampledFrom([]int{1, 2}).Draw(rt, "type")
			return c
		},
		Run: runC40d(w),
	})
}
