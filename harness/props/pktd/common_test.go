package pktd

// Shared helpers of the pktd group (C09, C10, C11): effect scripts richer than sim.Script
// (KV set / delete, bank sends, failure after a prefix of the effects), the callbacks that
// execute them on the context core hands to the application, an independent model of
// what the effects do to the application store and to bank balances, and context-based
// snapshots (so that state reached on a discarded cache context can be inspected).

import (
	"encoding/json"
	"fmt"
	"sort"

	sdkmath "cosmossdk.io/math"

	storetypes "github.com/cosmos/cosmos-sdk/store/v2/types"
	sdk "github.com/cosmos/cosmos-sdk/types"

	channeltypes "github.com/cosmos/ibc-go/v11/modules/core/04-channel/types"
	channeltypesv2 "github.com/cosmos/ibc-go/v11/modules/core/04-channel/v2/types"
	"github.com/cosmos/ibc-go/v11/modules/core/exported"
	ibctesting "github.com/cosmos/ibc-go/v11/testing"

	"github.com/cosmos/ibc-go/v11/modules/apps/callbacks/verifx/sim"
	"github.com/cosmos/ibc-go/v11/modules/apps/callbacks/verifx/vx"
)

// xEffect is one state change the scripted application performs while receiving.
type xEffect struct {
	K   string `json:"k"`             // set | del | bank
	Key string `json:"key,omitempty"` // set / del: application store key
	Amt int64  `json:"amt,omitempty"` // bank: amount of ufoo moved from account 5 to account 6 of the chain
}

// xScript is the packet data / payload value of the pktd checks.
type xScript struct {
	N   int       `json:"n"`            // nonce, also determines written values and the success ack
	E   []xEffect `json:"e,omitempty"`  // effects in execution order
	Out string    `json:"o"`            // ok | err | async | sentinel (v2: status Success carrying the error sentinel)
	F   int       `json:"f,omitempty"`  // Out=err: effects executed before the failure (clipped to 0..len(E))
	FK  string    `json:"fk,omitempty"` // Out=err: "" plain error result; "bank": the failure is a rejected (overdrawing) bank send
}

func (s xScript) bytes() []byte { b, _ := json.Marshal(s); return b }

func parseX(b []byte) (xScript, bool) {
	var s xScript
	if json.Unmarshal(b, &s) != nil || s.Out == "" {
		return xScript{}, false
	}
	return s, true
}

// prefix is the number of effects the script executes (all of them unless it fails).
func (s xScript) prefix(failAt int) int {
	n := len(s.E)
	if s.Out == "err" {
		f := s.F
		if failAt >= 0 {
			f = failAt
		}
		if f < 0 {
			f = 0
		}
		if f < n {
			n = f
		}
	}
	return n
}

const (
	bankFrom = 5
	bankTo   = 6
)

var bankDenom = ibctesting.SecondaryDenom

// cbEvent is one receive-callback invocation seen by the pktd callbacks.
type cbEvent struct {
	Tx       int // index of the transaction / direct call the callback ran in (fx.txNo)
	Chain    int
	V2       bool
	Port     string
	ID       string
	Seq      uint64
	N        int // script nonce
	Executed int // effects executed
	Out      string
}

// fx owns the pktd callbacks of one world.
type fx struct {
	w      *sim.World
	failAt int // >= 0: overrides xScript.F (fault enumeration over one and the same packet)
	txNo   int
	log    []cbEvent
	// bankErrs counts scripted (non-overdraft) bank sends that bank refused: harness health.
	bankErrs int
}

func newFx(w *sim.World) *fx { return &fx{w: w, failAt: -1} }

func valueOf(n, idx int) string { return fmt.Sprintf("v%d.%d", n, idx) }

// run executes the script's effect prefix on ctx (the context the application was given).
func (x *fx) run(ctx sdk.Context, chain int, s xScript) (executed int, failed bool) {
	app := x.w.App(chain)
	st := ctx.KVStore(app.GetKey(sim.AppStore))
	n := s.prefix(x.failAt)
	for i := 0; i < n; i++ {
		e := s.E[i]
		switch e.K {
		case "set":
			st.Set(sim.AppKey(e.Key), []byte(valueOf(s.N, i)))
		case "del":
			st.Delete(sim.AppKey(e.Key))
		case "bank":
			coins := sdk.NewCoins(sdk.NewCoin(bankDenom, sdkmath.NewInt(e.Amt)))
			if err := app.BankKeeper.SendCoins(ctx, x.w.Addr(chain, bankFrom), x.w.Addr(chain, bankTo), coins); err != nil {
				x.bankErrs++
			}
		}
	}
	if s.Out == "err" {
		if s.FK == "bank" {
			// the failure itself is a bank operation that bank rejects (overdraft); whatever it
			// touched before rejecting lives in the same discarded context
			huge, _ := sdkmath.NewIntFromString("1000000000000000000000000000000000000")
			_ = app.BankKeeper.SendCoins(ctx, x.w.Addr(chain, bankFrom), x.w.Addr(chain, bankTo), sdk.NewCoins(sdk.NewCoin(bankDenom, huge)))
		}
		return n, true
	}
	return n, false
}

// installV1 replaces the receive callback of the v1 mock application of chain i (ack and
// timeout callbacks of sim stay in place).
func (x *fx) installV1(i int) {
	m := x.w.App(i).IBCMockModule.IBCApp
	m.OnRecvPacket = func(ctx sdk.Context, _ string, p channeltypes.Packet, _ sdk.AccAddress) exported.Acknowledgement {
		s, ok := parseX(p.Data)
		if !ok {
			x.log = append(x.log, cbEvent{Tx: x.txNo, Chain: i, Port: p.DestinationPort, ID: p.DestinationChannel, Seq: p.Sequence, Out: "unparsable"})
			return sim.ErrAck()
		}
		n, _ := x.run(ctx, i, s)
		x.log = append(x.log, cbEvent{Tx: x.txNo, Chain: i, Port: p.DestinationPort, ID: p.DestinationChannel, Seq: p.Sequence, N: s.N, Executed: n, Out: s.Out})
		switch s.Out {
		case "ok":
			return sim.OKAck(s.N)
		case "async":
			return nil
		default:
			return sim.ErrAck()
		}
	}
}

// installV2 replaces the receive callbacks of both v2 mock applications of chain i.
func (x *fx) installV2(i int) {
	for _, port := range []string{"mockv2A", "mockv2B"} {
		a := x.w.App(i).MockModuleV2A.IBCApp
		if port == "mockv2B" {
			a = x.w.App(i).MockModuleV2B.IBCApp
		}
		a.OnRecvPacket = func(ctx sdk.Context, _, dst string, seq uint64, pl channeltypesv2.Payload, _ sdk.AccAddress) channeltypesv2.RecvPacketResult {
			s, ok := parseX(pl.Value)
			if !ok {
				x.log = append(x.log, cbEvent{Tx: x.txNo, Chain: i, V2: true, Port: port, ID: dst, Seq: seq, Out: "unparsable"})
				return channeltypesv2.RecvPacketResult{Status: channeltypesv2.PacketStatus_Failure}
			}
			n, _ := x.run(ctx, i, s)
			x.log = append(x.log, cbEvent{Tx: x.txNo, Chain: i, V2: true, Port: port, ID: dst, Seq: seq, N: s.N, Executed: n, Out: s.Out})
			switch s.Out {
			case "ok":
				return channeltypesv2.RecvPacketResult{Status: channeltypesv2.PacketStatus_Success, Acknowledgement: sim.OKAck2(s.N)}
			case "sentinel":
				return channeltypesv2.RecvPacketResult{Status: channeltypesv2.PacketStatus_Success, Acknowledgement: channeltypesv2.ErrorAcknowledgement[:]}
			case "async":
				return channeltypesv2.RecvPacketResult{Status: channeltypesv2.PacketStatus_Async}
			default:
				return channeltypesv2.RecvPacketResult{Status: channeltypesv2.PacketStatus_Failure}
			}
		}
	}
}

func xPayload(app string, s xScript) channeltypesv2.Payload {
	port := "mockv2A"
	if app == "B" {
		port = "mockv2B"
	}
	return channeltypesv2.Payload{SourcePort: port, DestinationPort: port, Version: "mock-version", Encoding: "application/json", Value: s.bytes()}
}

// ---- snapshots on an arbitrary context ---------------------------------------------

// snapCtx is sim.World.Snapshot evaluated on ctx (which may be a cache context on top of
// the chain's pending state): the default module stores plus non-bond bank balances and
// supplies.
func snapCtx(w *sim.World, i int, ctx sdk.Context) sim.Snap {
	app := w.App(i)
	s := sim.Snap{}
	for _, name := range sim.DefaultStores {
		key := app.GetKey(name)
		if key == nil {
			vx.Harnessf("no store key %q", name)
		}
		s[name] = dumpKV(ctx.KVStore(key))
	}
	bank := map[string]string{}
	app.BankKeeper.IterateAllBalances(ctx, func(addr sdk.AccAddress, coin sdk.Coin) bool {
		if coin.Denom != sdk.DefaultBondDenom {
			bank["bal/"+addr.String()+"/"+coin.Denom] = coin.Amount.String()
		}
		return false
	})
	app.BankKeeper.IterateTotalSupply(ctx, func(coin sdk.Coin) bool {
		if coin.Denom != sdk.DefaultBondDenom {
			bank["supply/"+coin.Denom] = coin.Amount.String()
		}
		return false
	})
	s["bank"] = bank
	return s
}

func dumpKV(st storetypes.KVStore) map[string]string {
	m := map[string]string{}
	it := st.Iterator(nil, nil)
	defer it.Close()
	for ; it.Valid(); it.Next() {
		m[string(it.Key())] = string(it.Value())
	}
	return m
}

func cloneSnap(a sim.Snap) sim.Snap {
	out := sim.Snap{}
	for st, m := range a {
		c := make(map[string]string, len(m))
		for k, v := range m {
			c[k] = v
		}
		out[st] = c
	}
	return out
}

// without returns the snapshot minus the named stores (shallow).
func without(a sim.Snap, stores ...string) sim.Snap {
	out := sim.Snap{}
	for st, m := range a {
		skip := false
		for _, s := range stores {
			if s == st {
				skip = true
			}
		}
		if !skip {
			out[st] = m
		}
	}
	return out
}

// only returns the snapshot restricted to the named stores.
func only(a sim.Snap, stores ...string) sim.Snap {
	out := sim.Snap{}
	for _, s := range stores {
		if m, ok := a[s]; ok {
			out[s] = m
		}
	}
	return out
}

// ---- the model of the effects ------------------------------------------------------

// applyModel returns what `pre` must look like outside the ibc store after the first n
// effects of s persisted on chain i. The second result is false when a scripted bank send
// could not be afforded (never the case with the generated amounts).
func applyModel(w *sim.World, i int, pre sim.Snap, s xScript, n int) (sim.Snap, bool) {
	out := cloneSnap(pre)
	app := out[sim.AppStore]
	bank := out["bank"]
	from := "bal/" + w.Addr(i, bankFrom).String() + "/" + bankDenom
	to := "bal/" + w.Addr(i, bankTo).String() + "/" + bankDenom
	for k := 0; k < n && k < len(s.E); k++ {
		e := s.E[k]
		switch e.K {
		case "set":
			app[string(sim.AppKey(e.Key))] = valueOf(s.N, k)
		case "del":
			delete(app, string(sim.AppKey(e.Key)))
		case "bank":
			f, ok1 := sdkmath.NewIntFromString(bank[from])
			if !ok1 {
				f = sdkmath.ZeroInt()
			}
			t, ok2 := sdkmath.NewIntFromString(bank[to])
			if !ok2 {
				t = sdkmath.ZeroInt()
			}
			a := sdkmath.NewInt(e.Amt)
			if f.LT(a) {
				return out, false
			}
			f, t = f.Sub(a), t.Add(a)
			if f.IsZero() {
				delete(bank, from)
			} else {
				bank[from] = f.String()
			}
			bank[to] = t.String()
		}
	}
	return out, true
}

// touches reports whether the first n effects would change anything observable relative
// to pre (a delete of an absent key or an empty prefix changes nothing).
func touches(w *sim.World, i int, pre sim.Snap, s xScript, n int) bool {
	m, _ := applyModel(w, i, pre, s, n)
	return len(sim.Diff(without(pre, exported.StoreKey), without(m, exported.StoreKey))) > 0
}

func sortedKeys(m map[string]string) []string {
	ks := make([]string, 0, len(m))
	for k := range m {
		ks = append(ks, k)
	}
	sort.Strings(ks)
	return ks
}

// short renders a diff list bounded in length.
func short(d []string) string {
	if len(d) > 8 {
		return fmt.Sprintf("%q ...(+%d)", d[:8], len(d)-8)
	}
	return fmt.Sprintf("%q", d)
}
