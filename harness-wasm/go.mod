module github.com/cosmos/ibc-go/modules/light-clients/08-wasm/v11/verifx

go 1.26.5

replace (
	github.com/cosmos/ibc-go/modules/light-clients/08-wasm/v11 => /repo/modules/light-clients/08-wasm
	github.com/cosmos/ibc-go/v11 => /repo
	github.com/cosmos/ibc-go/v11/modules/apps/callbacks/verifx => /verif/harness
	github.com/syndtr/goleveldb => github.com/syndtr/goleveldb v1.0.1-0.20210819022825-2ae1ddf74ef7
)

require (
	github.com/cosmos/ibc-go/modules/light-clients/08-wasm/v11 v11.0.0
	github.com/cosmos/ibc-go/v11/modules/apps/callbacks/verifx v0.0.0
)

require (
	cosmossdk.io/api v1.1.0
	cosmossdk.io/client/v2 v2.11.0
	cosmossdk.io/collections v1.4.0
	cosmossdk.io/core v1.1.0
	cosmossdk.io/errors v1.1.0
	cosmossdk.io/log/v2 v2.1.0
	cosmossdk.io/math v1.5.3
	cosmossdk.io/tools/confix v0.1.2
	github.com/CosmWasm/wasmvm/v3 v3.0.7
	github.com/OffchainLabs/prysm/v6 v6.1.4
	github.com/cometbft/cometbft v0.40.0
	github.com/cosmos/cosmos-db v1.1.3
	github.com/cosmos/cosmos-sdk v0.55.0
	github.com/cosmos/cosmos-sdk/store/v2 v2.0.0
	github.com/cosmos/gogoproto v1.7.2
	github.com/cosmos/ibc-go/v11 v11.0.0
	github.com/golang/protobuf v1.5.4
	github.com/grpc-ecosystem/grpc-gateway v1.16.0
	github.com/spf13/cast v1.10.0
	github.com/spf13/cobra v1.10.2
	github.com/spf13/viper v1.21.0
	github.com/stretchr/testify v1.12.0
	google.golang.org/genproto/googleapis/api v0.0.0-20260526163538-3dc84a4a5aaa
	google.golang.org/grpc v1.83.0
)

require (
	cel.dev/expr v0.25.2 // indirect
	cloud.google.com/go v0.123.0 // indirect
	cloud.google.com/go/auth v0.20.0 // indirect
	cloud.google.com/go/auth/oauth2adapt v0.2.8 // indirect
	cloud.google.com/go/compute/metadata v0.9.0 // indirect
	cloud.google.com/go/iam v1.11.0 // indirect
	cloud.google.com/go/monitoring v1.29.0 // indirect
	cloud.google.com/go/storage v1.62.1 // indirect
	cosmossdk.io/depinject v1.2.1 // indirect
	cosmossdk.io/schema v1.1.0 // indirect
	filippo.io/bigmod v0.1.1-0.20260103110540-f8a47775ebe5 // indirect
	filippo.io/edwards25519 v1.2.0 // indirect
	filippo.io/keygen v0.0.0-20260114151900-8e2790ea4c5b // indirect
	github.com/99designs/go-keychain v0.0.0-20191008050251-8e49817e8af4 // indirect
	github.com/99designs/keyring v1.2.2 // indirect
	github.com/DataDog/datadog-go v4.8.3+incompatible // indirect
	github.com/DataDog/zstd v1.5.7 // indirect
	github.com/GoogleCloudPlatform/opentelemetry-operations-go/detectors/gcp v1.33.0 // indirect
	github.com/GoogleCloudPlatform/opentelemetry-operations-go/exporter/metric v0.56.0 // indirect
	github.com/GoogleCloudPlatform/opentelemetry-operations-go/internal/resourcemapping v0.56.0 // indirect
	github.com/Microsoft/go-winio v0.6.2 // indirect
	github.com/ProjectZKM/Ziren/crates/go-runtime/zkvm_runtime v0.0.0-20260116142910-60249400e523 // indirect
	github.com/RoaringBitmap/roaring/v2 v2.24.0 // indirect
	github.com/aws/aws-sdk-go-v2 v1.41.7 // indirect
	github.com/aws/aws-sdk-go-v2/aws/protocol/eventstream v1.7.10 // indirect
	github.com/aws/aws-sdk-go-v2/config v1.32.17 // indirect
	github.com/aws/aws-sdk-go-v2/credentials v1.19.16 // indirect
	github.com/aws/aws-sdk-go-v2/feature/ec2/imds v1.18.23 // indirect
	github.com/aws/aws-sdk-go-v2/internal/configsources v1.4.23 // indirect
	github.com/aws/aws-sdk-go-v2/internal/endpoints/v2 v2.7.23 // indirect
	github.com/aws/aws-sdk-go-v2/internal/v4a v1.4.24 // indirect
	github.com/aws/aws-sdk-go-v2/service/internal/accept-encoding v1.13.9 // indirect
	github.com/aws/aws-sdk-go-v2/service/internal/checksum v1.9.15 // indirect
	github.com/aws/aws-sdk-go-v2/service/internal/presigned-url v1.13.23 // indirect
	github.com/aws/aws-sdk-go-v2/service/internal/s3shared v1.19.23 // indirect
	github.com/aws/aws-sdk-go-v2/service/s3 v1.99.0 // indirect
	github.com/aws/aws-sdk-go-v2/service/signin v1.0.11 // indirect
	github.com/aws/aws-sdk-go-v2/service/sso v1.30.17 // indirect
	github.com/aws/aws-sdk-go-v2/service/ssooidc v1.35.21 // indirect
	github.com/aws/aws-sdk-go-v2/service/sts v1.42.1 // indirect
	github.com/aws/smithy-go v1.25.1 // indirect
	github.com/benbjohnson/clock v1.3.5 // indirect
	github.com/beorn7/perks v1.0.1 // indirect
	github.com/bgentry/go-netrc v0.0.0-20140422174119-9fd32a8b3d3d // indirect
	github.com/bgentry/speakeasy v0.2.0 // indirect
	github.com/bits-and-blooms/bitset v1.24.5 // indirect
	github.com/bytedance/gopkg v0.1.4 // indirect
	github.com/bytedance/sonic v1.15.1 // indirect
	github.com/bytedance/sonic/loader v0.5.1 // indirect
	github.com/cenkalti/backoff/v4 v4.3.0 // indirect
	github.com/cenkalti/backoff/v5 v5.0.3 // indirect
	github.com/cespare/xxhash/v2 v2.3.0 // indirect
	github.com/chzyer/readline v1.5.1 // indirect
	github.com/cloudflare/circl v1.6.3 // indirect
	github.com/cloudwego/base64x v0.1.7 // indirect
	github.com/cncf/xds/go v0.0.0-20260202195803-dba9d589def2 // indirect
	github.com/cockroachdb/errors v1.13.0 // indirect
	github.com/cockroachdb/fifo v0.0.0-20240816210425-c5d0cb0b6fc0 // indirect
	github.com/cockroachdb/logtags v0.0.0-20241215232642-bb51bb14a506 // indirect
	github.com/cockroachdb/pebble v1.1.5 // indirect
	github.com/cockroachdb/redact v1.1.8 // indirect
	github.com/cockroachdb/tokenbucket v0.0.0-20250429170803-42689b6311bb // indirect
	github.com/cometbft/cometbft-db v1.0.4 // indirect
	github.com/consensys/gnark-crypto v0.18.1 // indirect
	github.com/cosmos/btcutil v1.0.5 // indirect
	github.com/cosmos/btree v1.0.0 // indirect
	github.com/cosmos/cosmos-proto v1.0.0-beta.5 // indirect
	github.com/cosmos/go-bip39 v1.0.0 // indirect
	github.com/cosmos/gogogateway v1.2.0 // indirect
	github.com/cosmos/iavl v1.2.8 // indirect
	github.com/cosmos/ics23/go v0.11.0 // indirect
	github.com/cosmos/ledger-cosmos-go v1.0.0 // indirect
	github.com/crate-crypto/go-eth-kzg v1.5.0 // indirect
	github.com/creachadair/atomicfile v0.3.8 // indirect
	github.com/creachadair/tomledit v0.0.29 // indirect
	github.com/danieljoos/wincred v1.2.3 // indirect
	github.com/davecgh/go-spew v1.1.2-0.20180830191138-d8f796af33cc // indirect
	github.com/davidlazar/go-crypto v0.0.0-20200604182044-b73af7476f6c // indirect
	github.com/decred/dcrd/dcrec/secp256k1/v4 v4.4.1 // indirect
	github.com/desertbit/timer v1.0.1 // indirect
	github.com/dgraph-io/badger/v4 v4.9.1 // indirect
	github.com/dgraph-io/ristretto/v2 v2.4.0 // indirect
	github.com/dunglas/httpsfv v1.1.0 // indirect
	github.com/dustin/go-humanize v1.0.1 // indirect
	github.com/dvsekhvalnov/jose2go v1.8.0 // indirect
	github.com/ebitengine/purego v0.10.1 // indirect
	github.com/emicklei/dot v1.11.0 // indirect
	github.com/envoyproxy/go-control-plane/envoy v1.37.0 // indirect
	github.com/envoyproxy/protoc-gen-validate v1.3.3 // indirect
	github.com/ethereum/c-kzg-4844/v2 v2.1.8 // indirect
	github.com/ethereum/go-ethereum v1.17.5 // indirect
	github.com/fatih/color v1.18.0 // indirect
	github.com/felixge/httpsnoop v1.0.4 // indirect
	github.com/flynn/noise v1.1.0 // indirect
	github.com/fsnotify/fsnotify v1.9.0 // indirect
	github.com/getsentry/sentry-go v0.46.2 // indirect
	github.com/go-jose/go-jose/v4 v4.1.4 // indirect
	github.com/go-kit/kit v0.13.0 // indirect
	github.com/go-kit/log v0.2.1 // indirect
	github.com/go-logfmt/logfmt v0.6.1 // indirect
	github.com/go-logr/logr v1.4.3 // indirect
	github.com/go-logr/stdr v1.2.2 // indirect
	github.com/go-ole/go-ole v1.3.0 // indirect
	github.com/go-viper/mapstructure/v2 v2.5.0 // indirect
	github.com/godbus/dbus v0.0.0-20190726142602-4481cbc300e2 // indirect
	github.com/gogo/googleapis v1.4.1 // indirect
	github.com/gogo/protobuf v1.3.2 // indirect
	github.com/golang/snappy v1.0.1-0.20260716114414-9ae09f520e93 // indirect
	github.com/google/btree v1.1.3 // indirect
	github.com/google/flatbuffers v25.2.10+incompatible // indirect
	github.com/google/go-cmp v0.7.0 // indirect
	github.com/google/orderedcode v0.0.1 // indirect
	github.com/google/s2a-go v0.1.9 // indirect
	github.com/google/uuid v1.6.0 // indirect
	github.com/googleapis/enterprise-certificate-proxy v0.3.15 // indirect
	github.com/googleapis/gax-go/v2 v2.22.0 // indirect
	github.com/gorilla/handlers v1.5.2 // indirect
	github.com/gorilla/mux v1.8.1 // indirect
	github.com/gorilla/websocket v1.5.3 // indirect
	github.com/grpc-ecosystem/go-grpc-middleware v1.4.0 // indirect
	github.com/grpc-ecosystem/grpc-gateway/v2 v2.29.0 // indirect
	github.com/gsterjov/go-libsecret v0.0.0-20161001094733-a6f4afe4910c // indirect
	github.com/hashicorp/aws-sdk-go-base/v2 v2.0.0-beta.72 // indirect
	github.com/hashicorp/go-cleanhttp v0.5.2 // indirect
	github.com/hashicorp/go-getter v1.8.6 // indirect
	github.com/hashicorp/go-hclog v1.6.3 // indirect
	github.com/hashicorp/go-immutable-radix v1.3.1 // indirect
	github.com/hashicorp/go-metrics v0.6.1 // indirect
	github.com/hashicorp/go-plugin v1.7.0 // indirect
	github.com/hashicorp/go-version v1.9.0 // indirect
	github.com/hashicorp/golang-lru v1.0.2 // indirect
	github.com/hashicorp/golang-lru/v2 v2.0.7 // indirect
	github.com/hashicorp/yamux v0.1.2 // indirect
	github.com/hdevalence/ed25519consensus v0.2.0 // indirect
	github.com/herumi/bls-eth-go-binary v1.31.0 // indirect
	github.com/holiman/uint256 v1.3.2 // indirect
	github.com/huandu/skiplist v1.2.1 // indirect
	github.com/huin/goupnp v1.3.0 // indirect
	github.com/iancoleman/strcase v0.3.0 // indirect
	github.com/improbable-eng/grpc-web v0.15.0 // indirect
	github.com/inconshreveable/mousetrap v1.1.0 // indirect
	github.com/ipfs/go-cid v0.5.0 // indirect
	github.com/jackpal/go-nat-pmp v1.0.2 // indirect
	github.com/jbenet/go-temp-err-catcher v0.1.0 // indirect
	github.com/jmhodges/levigo v1.0.0 // indirect
	github.com/klauspost/compress v1.19.1 // indirect
	github.com/klauspost/cpuid/v2 v2.3.0 // indirect
	github.com/koron/go-ssdp v0.0.6 // indirect
	github.com/kr/pretty v0.3.1 // indirect
	github.com/kr/text v0.2.0 // indirect
	github.com/lib/pq v1.12.3 // indirect
	github.com/libp2p/go-buffer-pool v0.1.0 // indirect
	github.com/libp2p/go-flow-metrics v0.2.0 // indirect
	github.com/libp2p/go-libp2p v0.48.0 // indirect
	github.com/libp2p/go-libp2p-asn-util v0.4.1 // indirect
	github.com/libp2p/go-msgio v0.3.0 // indirect
	github.com/libp2p/go-netroute v0.4.0 // indirect
	github.com/libp2p/go-reuseport v0.4.0 // indirect
	github.com/libp2p/go-yamux/v5 v5.0.1 // indirect
	github.com/linxGnu/grocksdb v1.10.8 // indirect
	github.com/lufia/plan9stats v0.0.0-20260330125221-c963978e514e // indirect
	github.com/manifoldco/promptui v0.9.0 // indirect
	github.com/marten-seemann/tcp v0.0.0-20210406111302-dfbc87cc63fd // indirect
	github.com/mattn/go-colorable v0.1.14 // indirect
	github.com/mattn/go-isatty v0.0.24 // indirect
	github.com/mdp/qrterminal/v3 v3.2.1 // indirect
	github.com/miekg/dns v1.1.72 // indirect
	github.com/mikioh/tcpinfo v0.0.0-20190314235526-30a79bb1804b // indirect
	github.com/mikioh/tcpopt v0.0.0-20190314235656-172688c1accc // indirect
	github.com/minio/highwayhash v1.0.4 // indirect
	github.com/minio/sha256-simd v1.0.1 // indirect
	github.com/mitchellh/go-homedir v1.1.0 // indirect
	github.com/mitchellh/mapstructure v1.5.0 // indirect
	github.com/mohae/deepcopy v0.0.0-20170929034955-c48cc78d4826 // indirect
	github.com/mr-tron/base58 v1.3.0 // indirect
	github.com/mschoch/smat v0.2.0 // indirect
	github.com/mtibben/percent v0.2.1 // indirect
	github.com/multiformats/go-base32 v0.1.0 // indirect
	github.com/multiformats/go-base36 v0.2.0 // indirect
	github.com/multiformats/go-multiaddr v0.16.1 // indirect
	github.com/multiformats/go-multiaddr-dns v0.4.1 // indirect
	github.com/multiformats/go-multiaddr-fmt v0.1.0 // indirect
	github.com/multiformats/go-multibase v0.2.0 // indirect
	github.com/multiformats/go-multicodec v0.9.1 // indirect
	github.com/multiformats/go-multihash v0.2.3 // indirect
	github.com/multiformats/go-multistream v0.6.1 // indirect
	github.com/multiformats/go-varint v0.0.7 // indirect
	github.com/munnerz/goautoneg v0.0.0-20191010083416-a7dc8b61c822 // indirect
	github.com/oasisprotocol/curve25519-voi v0.0.0-20251114093237-2ab5a27a1729 // indirect
	github.com/oklog/run v1.2.0 // indirect
	github.com/pbnjay/memory v0.0.0-20210728143218-7b4eea64cf58 // indirect
	github.com/pelletier/go-toml/v2 v2.2.4 // indirect
	github.com/petermattis/goid v0.0.0-20260330135022-df67b199bc81 // indirect
	github.com/pion/datachannel v1.5.10 // indirect
	github.com/pion/dtls/v3 v3.1.2 // indirect
	github.com/pion/ice/v4 v4.0.10 // indirect
	github.com/pion/interceptor v0.1.40 // indirect
	github.com/pion/logging v0.2.4 // indirect
	github.com/pion/mdns/v2 v2.0.7 // indirect
	github.com/pion/randutil v0.1.0 // indirect
	github.com/pion/rtcp v1.2.16 // indirect
	github.com/pion/rtp v1.8.19 // indirect
	github.com/pion/sctp v1.8.39 // indirect
	github.com/pion/sdp/v3 v3.0.18 // indirect
	github.com/pion/srtp/v3 v3.0.6 // indirect
	github.com/pion/stun/v3 v3.1.2 // indirect
	github.com/pion/transport/v3 v3.0.7 // indirect
	github.com/pion/transport/v4 v4.0.1 // indirect
	github.com/pion/turn/v4 v4.0.2 // indirect
	github.com/pion/webrtc/v4 v4.1.2 // indirect
	github.com/pkg/errors v0.9.1 // indirect
	github.com/planetscale/vtprotobuf v0.6.1-0.20240319094008-0393e58bdf10 // indirect
	github.com/power-devops/perfstat v0.0.0-20240221224432-82ca36839d55 // indirect
	github.com/prometheus/client_golang v1.24.1 // indirect
	github.com/prometheus/client_model v0.6.2 // indirect
	github.com/prometheus/common v0.70.1 // indirect
	github.com/prometheus/procfs v0.21.1 // indirect
	github.com/prysmaticlabs/fastssz v0.0.0-20251103153600-259302269bfc // indirect
	github.com/prysmaticlabs/go-bitfield v0.0.0-20240328144219-a1caa50c3a1e // indirect
	github.com/prysmaticlabs/gohashtree v0.0.5-beta // indirect
	github.com/quic-go/qpack v0.6.0 // indirect
	github.com/quic-go/quic-go v0.60.0 // indirect
	github.com/quic-go/webtransport-go v0.11.1 // indirect
	github.com/rcrowley/go-metrics v0.0.0-20250401214520-65e299d6c5c9 // indirect
	github.com/rogpeppe/go-internal v1.14.1 // indirect
	github.com/rs/cors v1.11.1 // indirect
	github.com/rs/zerolog v1.35.1 // indirect
	github.com/sagikazarmark/locafero v0.11.0 // indirect
	github.com/sasha-s/go-deadlock v0.3.9 // indirect
	github.com/shamaton/msgpack/v2 v2.2.3 // indirect
	github.com/shirou/gopsutil/v4 v4.26.6 // indirect
	github.com/sirupsen/logrus v1.9.4 // indirect
	github.com/sourcegraph/conc v0.3.1-0.20240121214520-5f936abd7ae8 // indirect
	github.com/spaolacci/murmur3 v1.1.0 // indirect
	github.com/spf13/afero v1.15.0 // indirect
	github.com/spf13/pflag v1.0.10 // indirect
	github.com/spiffe/go-spiffe/v2 v2.7.0 // indirect
	github.com/subosito/gotenv v1.6.0 // indirect
	github.com/supranational/blst v0.3.16 // indirect
	github.com/syndtr/goleveldb v1.0.1-0.20220721030215-126854af5e6d // indirect
	github.com/tendermint/go-amino v0.16.0 // indirect
	github.com/thomaso-mirodin/intmath v0.0.0-20160323211736-5dc6d854e46e // indirect
	github.com/tidwall/btree v1.8.1 // indirect
	github.com/tklauser/go-sysconf v0.4.0 // indirect
	github.com/tklauser/numcpus v0.12.0 // indirect
	github.com/twitchyliquid64/golang-asm v0.15.1 // indirect
	github.com/ulikunitz/xz v0.5.15 // indirect
	github.com/wlynxg/anet v0.0.5 // indirect
	github.com/yusufpapurcu/wmi v1.2.4 // indirect
	github.com/zondax/golem v0.27.0 // indirect
	github.com/zondax/hid v0.9.2 // indirect
	github.com/zondax/ledger-go v1.0.1 // indirect
	go.etcd.io/bbolt v1.4.3 // indirect
	go.opentelemetry.io/auto/sdk v1.2.1 // indirect
	go.opentelemetry.io/contrib/bridges/otelslog v0.19.0 // indirect
	go.opentelemetry.io/contrib/detectors/gcp v1.44.0 // indirect
	go.opentelemetry.io/contrib/instrumentation/google.golang.org/grpc/otelgrpc v0.69.0 // indirect
	go.opentelemetry.io/contrib/instrumentation/host v0.69.0 // indirect
	go.opentelemetry.io/contrib/instrumentation/net/http/otelhttp v0.68.0 // indirect
	go.opentelemetry.io/contrib/instrumentation/runtime v0.69.0 // indirect
	go.opentelemetry.io/contrib/otelconf v0.24.0 // indirect
	go.opentelemetry.io/contrib/propagators/autoprop v0.69.0 // indirect
	go.opentelemetry.io/contrib/propagators/aws v1.44.0 // indirect
	go.opentelemetry.io/contrib/propagators/b3 v1.44.0 // indirect
	go.opentelemetry.io/contrib/propagators/jaeger v1.44.0 // indirect
	go.opentelemetry.io/contrib/propagators/ot v1.44.0 // indirect
	go.opentelemetry.io/otel v1.44.0 // indirect
	go.opentelemetry.io/otel/exporters/otlp/otlplog/otlploggrpc v0.20.0 // indirect
	go.opentelemetry.io/otel/exporters/otlp/otlplog/otlploghttp v0.20.0 // indirect
	go.opentelemetry.io/otel/exporters/otlp/otlpmetric/otlpmetricgrpc v1.44.0 // indirect
	go.opentelemetry.io/otel/exporters/otlp/otlpmetric/otlpmetrichttp v1.44.0 // indirect
	go.opentelemetry.io/otel/exporters/otlp/otlptrace v1.44.0 // indirect
	go.opentelemetry.io/otel/exporters/otlp/otlptrace/otlptracegrpc v1.44.0 // indirect
	go.opentelemetry.io/otel/exporters/otlp/otlptrace/otlptracehttp v1.44.0 // indirect
	go.opentelemetry.io/otel/exporters/stdout/stdoutlog v0.20.0 // indirect
	go.opentelemetry.io/otel/exporters/stdout/stdoutmetric v1.44.0 // indirect
	go.opentelemetry.io/otel/exporters/stdout/stdouttrace v1.44.0 // indirect
	go.opentelemetry.io/otel/log v0.20.0 // indirect
	go.opentelemetry.io/otel/metric v1.44.0 // indirect
	go.opentelemetry.io/otel/sdk v1.44.0 // indirect
	go.opentelemetry.io/otel/sdk/log v0.20.0 // indirect
	go.opentelemetry.io/otel/sdk/metric v1.44.0 // indirect
	go.opentelemetry.io/otel/trace v1.44.0 // indirect
	go.opentelemetry.io/proto/otlp v1.10.0 // indirect
	go.uber.org/dig v1.19.0 // indirect
	go.uber.org/fx v1.24.0 // indirect
	go.uber.org/mock v0.6.0 // indirect
	go.uber.org/multierr v1.11.0 // indirect
	go.uber.org/zap v1.27.1 // indirect
	go.yaml.in/yaml/v2 v2.4.4 // indirect
	go.yaml.in/yaml/v3 v3.0.5 // indirect
	golang.org/x/arch v0.26.0 // indirect
	golang.org/x/crypto v0.54.0 // indirect
	golang.org/x/exp v0.0.0-20260527015227-08cc5374adb3 // indirect
	golang.org/x/mod v0.37.0 // indirect
	golang.org/x/net v0.57.0 // indirect
	golang.org/x/oauth2 v0.36.0 // indirect
	golang.org/x/sync v0.22.0 // indirect
	golang.org/x/sys v0.47.0 // indirect
	golang.org/x/telemetry v0.0.0-20260625142307-59b4966ccb57 // indirect
	golang.org/x/term v0.45.0 // indirect
	golang.org/x/text v0.40.0 // indirect
	golang.org/x/time v0.15.0 // indirect
	golang.org/x/tools v0.47.0 // indirect
	google.golang.org/api v0.276.0 // indirect
	google.golang.org/genproto v0.0.0-20260511170946-3700d4141b60 // indirect
	google.golang.org/genproto/googleapis/rpc v0.0.0-20260526163538-3dc84a4a5aaa // indirect
	google.golang.org/protobuf v1.36.12 // indirect
	gopkg.in/yaml.v2 v2.4.0 // indirect
	gopkg.in/yaml.v3 v3.0.1 // indirect
	gotest.tools/v3 v3.5.2 // indirect
	lukechampine.com/blake3 v1.4.1 // indirect
	nhooyr.io/websocket v1.8.17 // indirect
	pgregory.net/rapid v1.3.0
	rsc.io/qr v0.2.0 // indirect
	sigs.k8s.io/yaml v1.6.0 // indirect
)
