package ica

import (
	"fmt"
	"sort"
	"strconv"
	"strings"
	"testing"
	"time"

	"github.com/cosmos/gogoproto/proto"
	"pgregory.net/rapid"

	sdk "github.com/cosmos/cosmos-sdk/types"
	banktypes "github.com/cosmos/cosmos-sdk/x/bank/types"

	icacontrollertypes "github.com/cosmos/ibc-go/v11/modules/apps/27-interchain-accounts/controller/types"
	icatypes "github.com/cosmos/ibc-go/v11/modules/apps/27-interchain-accounts/types"
	channeltypes "github.com/cosmos/ibc-go/v11/modules/core/04-channel/types"
	ibctesting "github.com/cosmos/ibc-go/v11/testing"

	"github.com/cosmos/ibc-go/v11/modules/apps/callbacks/verifx/sim"
	"github.com/cosmos/ibc-go/v11/modules/apps/callbacks/verifx/vx"
)

// C38: for each (connection, owner) at most one channel is the active interchain-account
// channel, and it can be replaced only after it is CLOSED. Reopening keeps ordering,
// metadata and account address. Packets leave an owner's port only through a message that
// owner signed; only the controller side starts a handshake, always towards the host port.
//
// A history is a list of plain-data operations run against two simapp chains (chain 0 in
// the controller role, chain 1 in the host role, two connections). After every delivered
// transaction both chains are observed (all ICA channel ends, both keepers' active-channel
// and account mappings, nextSequenceSend) and the invariants below are evaluated on the
// (previous, current) observation pair.

type c38Op struct {
	K      string `json:"k"`                // open reg init try ack confirm sendtx recv timeout close closeconfirm closeinit adv
	Owner  int    `json:"owner,omitempty"`  // controller account 0..2 whose address is the owner string
	Signer int    `json:"signer,omitempty"` // account that signs reg / sendtx (== Owner when honest)
	Conn   int    `json:"conn,omitempty"`   // connection index 0/1
	Ord    bool   `json:"ord,omitempty"`    // ORDERED (else UNORDERED)
	Ver    int    `json:"ver,omitempty"`    // version variant, see (*c38Run).version
	Ch     int    `json:"ch,omitempty"`     // index (mod population) into controller channels / host channels / packets
	Chain  int    `json:"chain,omitempty"`  // init, closeinit: chain the message is submitted to
	Port   int    `json:"port,omitempty"`   // init: 0 owner's controller port, 1 host port, 2 controller port of a never registered owner
	CPort  int    `json:"cport,omitempty"`  // init: counterparty port 0 host port, 1 a controller port, 2 transfer
	Short  bool   `json:"short,omitempty"`  // sendtx: 10 s relative timeout instead of 1 h
}

type c38Case struct {
	Ops []c38Op `json:"ops"`
}

// ---- observation ----------------------------------------------------------------------

type chanObs struct {
	Port, ID, Conn string
	State          channeltypes.State
	Order          channeltypes.Order
	CPPort, CPChan string
	Version        string
	NextSend       uint64
}

func (c chanObs) key() string { return c.Port + "/" + c.ID }

type chainObs struct {
	chans      map[string]chanObs
	ctrlActive map[string]string // "conn|port" -> channel id (controller keeper)
	hostActive map[string]string // "conn|controller port" -> channel id (host keeper)
	ctrlAddr   map[string]string
	hostAddr   map[string]string
}

func isCtrlPort(p string) bool { return strings.HasPrefix(p, icatypes.ControllerPortPrefix) }

func chanNum(id string) int {
	n, err := strconv.Atoi(strings.TrimPrefix(id, "channel-"))
	if err != nil {
		return 1 << 30
	}
	return n
}

func (e *env) observe(chain int) chainObs {
	ctx, app := e.w.Ctx(chain), e.w.App(chain)
	o := chainObs{chans: map[string]chanObs{}, ctrlActive: map[string]string{}, hostActive: map[string]string{}, ctrlAddr: map[string]string{}, hostAddr: map[string]string{}}
	for _, ic := range app.IBCKeeper.ChannelKeeper.GetAllChannels(ctx) {
		if !isCtrlPort(ic.PortId) && ic.PortId != icatypes.HostPortID {
			continue
		}
		c := chanObs{Port: ic.PortId, ID: ic.ChannelId, State: ic.State, Order: ic.Ordering, CPPort: ic.Counterparty.PortId, CPChan: ic.Counterparty.ChannelId, Version: ic.Version}
		if len(ic.ConnectionHops) > 0 {
			c.Conn = ic.ConnectionHops[0]
		}
		c.NextSend, _ = app.IBCKeeper.ChannelKeeper.GetNextSequenceSend(ctx, ic.PortId, ic.ChannelId)
		o.chans[c.key()] = c
	}
	for _, a := range app.ICAControllerKeeper.GetAllActiveChannels(ctx) {
		o.ctrlActive[a.ConnectionId+"|"+a.PortId] = a.ChannelId
	}
	for _, a := range app.ICAHostKeeper.GetAllActiveChannels(ctx) {
		o.hostActive[a.ConnectionId+"|"+a.PortId] = a.ChannelId
	}
	for _, a := range app.ICAControllerKeeper.GetAllInterchainAccounts(ctx) {
		o.ctrlAddr[a.ConnectionId+"|"+a.PortId] = a.AccountAddress
	}
	for _, a := range app.ICAHostKeeper.GetAllInterchainAccounts(ctx) {
		o.hostAddr[a.ConnectionId+"|"+a.PortId] = a.AccountAddress
	}
	return o
}

// sorted returns the channels selected by keep in creation order.
func (o chainObs) sorted(keep func(chanObs) bool) []chanObs {
	var out []chanObs
	for _, c := range o.chans {
		if keep(c) {
			out = append(out, c)
		}
	}
	sort.Slice(out, func(i, j int) bool {
		if a, b := chanNum(out[i].ID), chanNum(out[j].ID); a != b {
			return a < b
		}
		return out[i].Port < out[j].Port
	})
	return out
}

// sameMetadata compares everything but the account address (the ICS-27 reopening rule).
func sameMetadata(a, b string) (equal bool, ma, mb icatypes.Metadata) {
	ma, errA := icatypes.MetadataFromVersion(a)
	mb, errB := icatypes.MetadataFromVersion(b)
	if errA != nil || errB != nil {
		return a == b, ma, mb
	}
	return ma.Version == mb.Version && ma.ControllerConnectionId == mb.ControllerConnectionId && ma.HostConnectionId == mb.HostConnectionId &&
		ma.Encoding == mb.Encoding && ma.TxType == mb.TxType, ma, mb
}

// ---- the interpreter --------------------------------------------------------------------

type c38Pkt struct {
	link *sim.Link
	pkt  *sim.Pkt
}

// sub is one delivered transaction together with what the oracle needs to know about it.
type sub struct {
	what    string
	chain   int
	signer  int
	sendTx  *icacontrollertypes.MsgSendTx // set when the tx carries a MsgSendTx
	initKey string                        // "conn|port" a successful tx would start a handshake for ("" otherwise)
	res     sim.TxResult
}

type c38Run struct {
	t    rapid.TB
	rec  *vx.Case
	e    *env
	obs  [2]chainObs
	pkts []c38Pkt
	step int

	// evidence
	sawClosed      bool
	reopenAttempts int
	reopened       int
	// born: controller channel key -> id of the CLOSED active channel it was created to replace ("" if none)
	born map[string]string
}

const c38ID = "C38"

func (r *c38Run) connIdx(chain int, connID string) int {
	for i := range r.e.conns {
		if r.e.connID(i, chain) == connID {
			return i
		}
	}
	return -1
}

func (r *c38Run) version(v, conn int) string {
	e := r.e
	md := icatypes.NewDefaultMetadata(e.connID(conn, ctrl), e.connID(conn, hostc))
	switch v % 8 {
	case 0:
		return ""
	case 1:
	case 2:
		md.Encoding = icatypes.EncodingProto3JSON
	case 3: // connection ids of the other connection
		md.ControllerConnectionId, md.HostConnectionId = e.connID(conn+1, ctrl), e.connID(conn+1, hostc)
	case 4:
		return "not-json"
	case 5: // tries to choose the account address itself
		md.Address = e.addr(hostc, 1)
	case 6:
		md.TxType = "sdk_single_msg"
	case 7:
		md.HostConnectionId = ""
	}
	return string(icatypes.ModuleCdc.MustMarshalJSON(&md))
}

func order(ord bool) channeltypes.Order {
	if ord {
		return channeltypes.ORDERED
	}
	return channeltypes.UNORDERED
}

// deliver sends one transaction, re-observes both chains and evaluates every invariant.
func (r *c38Run) deliver(s sub, msg sdk.Msg) sim.TxResult {
	s.res = r.e.w.Deliver(s.chain, s.signer, msg)
	r.check(s)
	return s.res
}

func (r *c38Run) violate(sig, format string, args ...any) {
	vx.Violatef(r.t, r.rec, c38ID, sig, "step %d: %s", r.step, fmt.Sprintf(format, args...))
}

func (r *c38Run) check(s sub) {
	prev := r.obs
	cur := [2]chainObs{r.e.observe(0), r.e.observe(1)}
	r.obs = cur
	for x := 0; x < 2; x++ {
		p, q := prev[x], cur[x]
		other := cur[1-x]

		if x == ctrl {
			for _, c := range q.sorted(func(c chanObs) bool { return isCtrlPort(c.Port) }) {
				if _, existed := p.chans[c.key()]; existed {
					continue
				}
				r.born[c.key()] = ""
				if id, ok := p.ctrlActive[c.Conn+"|"+c.Port]; ok && p.chans[c.Port+"/"+id].State == channeltypes.CLOSED {
					r.born[c.key()] = id
				}
			}
		}

		// A. shape: only controller-port ends are created by Init, only host-port ends by Try,
		//    and they face each other
		openCtrl, openHost := map[string][]string{}, map[string][]string{}
		for _, c := range q.sorted(func(chanObs) bool { return true }) {
			if isCtrlPort(c.Port) {
				if c.CPPort != icatypes.HostPortID {
					r.violate("controller-channel-counterparty-not-host-port", "chain %d: channel %s has counterparty port %q", x, c.key(), c.CPPort)
				}
				if c.State == channeltypes.TRYOPEN {
					r.violate("controller-port-channel-opened-by-try", "chain %d: channel %s on a controller port is in TRYOPEN (after %s)", x, c.key(), s.what)
				}
				if c.State == channeltypes.OPEN {
					openCtrl[c.Conn+"|"+c.Port] = append(openCtrl[c.Conn+"|"+c.Port], c.ID)
				}
				if c.State == channeltypes.CLOSED && x == ctrl {
					r.sawClosed = true
				}
			} else {
				if c.State == channeltypes.INIT {
					r.violate("host-port-handshake-initiated", "chain %d: channel %s on the host port is in INIT (after %s)", x, c.key(), s.what)
				}
				if !isCtrlPort(c.CPPort) {
					r.violate("host-channel-counterparty-not-controller-port", "chain %d: channel %s has counterparty port %q", x, c.key(), c.CPPort)
				}
				if c.State == channeltypes.OPEN {
					openHost[c.Conn+"|"+c.CPPort] = append(openHost[c.Conn+"|"+c.CPPort], c.ID)
				}
			}
		}

		// B. at most one OPEN channel per (connection, owner port), and it is the active one
		for k, ids := range openCtrl {
			if len(ids) > 1 {
				r.violate("two-open-channels-controller", "chain %d: %s has OPEN channels %v (after %s)", x, k, ids, s.what)
			}
			if q.ctrlActive[k] != ids[0] {
				r.violate("open-channel-not-active-controller", "chain %d: %s has OPEN channel %s but active channel %q", x, k, ids[0], q.ctrlActive[k])
			}
		}
		for k, ids := range openHost {
			if len(ids) > 1 {
				// the stale end of a channel whose controller end is CLOSED is not usable any more
				live := 0
				for _, id := range ids {
					h := q.chans[icatypes.HostPortID+"/"+id]
					if cp, ok := other.chans[h.CPPort+"/"+h.CPChan]; !ok || cp.State != channeltypes.CLOSED {
						live++
					}
				}
				r.rec.Class("host-two-open-ends-one-stale")
				if live > 1 {
					r.violate("two-open-channels-host", "chain %d: %s has OPEN channels %v whose controller ends are not CLOSED (after %s)", x, k, ids, s.what)
				}
			}
		}

		// C. the active mapping is replaced only after CLOSED; reopening keeps ordering, metadata, address
		for k, id := range q.ctrlActive {
			old, had := p.ctrlActive[k]
			if !had || old == id {
				continue
			}
			port := strings.SplitN(k, "|", 2)[1]
			oc, nc := p.chans[port+"/"+old], q.chans[port+"/"+id]
			if oc.State != channeltypes.CLOSED {
				r.violate("active-replaced-while-not-closed-controller", "chain %d: active channel of %s changed %s -> %s while %s was %s (after %s)", x, k, old, id, old, oc.State, s.what)
			}
			r.reopened++
			r.checkReopen(x, "controller", k, oc, nc, x == ctrl && r.born[nc.key()] != old, s)
		}
		for k, id := range q.hostActive {
			old, had := p.hostActive[k]
			if !had || old == id {
				continue
			}
			oc, nc := p.chans[icatypes.HostPortID+"/"+old], q.chans[icatypes.HostPortID+"/"+id]
			if oc.State != channeltypes.CLOSED {
				r.rec.Class("host-active-replaced-while-host-end-open")
				cp, ok := prev[1-x].chans[oc.CPPort+"/"+oc.CPChan]
				if !ok || cp.State != channeltypes.CLOSED {
					r.violate("active-replaced-while-not-closed-host", "chain %d: host active channel of %s changed %s -> %s while neither end of %s was CLOSED (after %s)", x, k, old, id, old, s.what)
				}
			}
			r.checkReopen(x, "host", k, oc, nc, x == hostc && r.born[nc.CPPort+"/"+nc.CPChan] != oc.CPChan, s)
		}
		for k, a := range p.ctrlAddr {
			if q.ctrlAddr[k] != a {
				r.violate("account-address-changed-controller", "chain %d: interchain account of %s changed %s -> %s (after %s)", x, k, a, q.ctrlAddr[k], s.what)
			}
		}
		for k, a := range p.hostAddr {
			if q.hostAddr[k] != a {
				r.violate("account-address-changed-host", "chain %d: interchain account of %s changed %s -> %s (after %s)", x, k, a, q.hostAddr[k], s.what)
			}
		}

		// D. a handshake for (connection, owner port) starts only when no OPEN active channel exists
		if s.res.OK && s.chain == x && s.initKey != "" {
			if id, ok := p.ctrlActive[s.initKey]; ok {
				port := strings.SplitN(s.initKey, "|", 2)[1]
				if p.chans[port+"/"+id].State == channeltypes.OPEN {
					r.violate("handshake-started-while-active-open", "chain %d: %s accepted for %s although its active channel %s is OPEN", x, s.what, s.initKey, id)
				}
			}
		}

		// E. packets leave a controller port only through MsgSendTx signed by the port's owner
		for _, c := range q.sorted(func(c chanObs) bool { return isCtrlPort(c.Port) }) {
			was, ok := p.chans[c.key()]
			if !ok || c.NextSend <= was.NextSend {
				continue
			}
			r.rec.Add("packets_sent", int64(c.NextSend-was.NextSend))
			signerAddr := r.e.addr(s.chain, s.signer)
			if !(s.res.OK && s.chain == x && s.sendTx != nil && s.sendTx.Owner == signerAddr && ctrlPort(s.sendTx.Owner) == c.Port) {
				r.violate("packet-without-owner-signature", "chain %d: nextSequenceSend of %s advanced %d -> %d by %s (signer account %d)", x, c.key(), was.NextSend, c.NextSend, s.what, s.signer)
			}
		}
	}
	if s.res.OK && s.sendTx != nil && s.sendTx.Owner != r.e.addr(s.chain, s.signer) {
		r.violate("sendtx-accepted-from-non-owner", "MsgSendTx with owner %s accepted in a transaction signed by account %d", s.sendTx.Owner, s.signer)
	}

	// controller and host agree on the account of a (connection pair, owner port)
	for k, a := range cur[ctrl].ctrlAddr {
		parts := strings.SplitN(k, "|", 2)
		if i := r.connIdx(ctrl, parts[0]); i >= 0 {
			if h, ok := cur[hostc].hostAddr[r.e.connID(i, hostc)+"|"+parts[1]]; ok && h != a {
				r.violate("controller-host-account-mismatch", "%s: controller stores account %s, host registered %s", k, a, h)
			}
		}
	}
}

// sigInFlight is the signature of the finding repaired by the fix: commit (controller OnChanOpenAck now repeats the
// reopening checks); it stays a separate signature so a regression is recognisable: OnChanOpenAck (controller) and
// OnChanOpenConfirm (host) do not compare a channel with the CLOSED active channel it
// replaces, so a handshake that was started before that channel closed (and therefore never
// passed the reopening checks of OnChanOpenInit) can change ordering and metadata.
const sigInFlight = "inflight-handshake-changes-ordering-or-metadata"

func (r *c38Run) checkReopen(chain int, role, k string, oc, nc chanObs, inFlight bool, s sub) {
	sigO, sigM := "reopen-changed-ordering-"+role, "reopen-changed-metadata-"+role
	if inFlight {
		r.rec.Class("inflight-handshake-completed-after-close")
		sigO, sigM = sigInFlight, sigInFlight
	}
	if oc.Order != nc.Order {
		r.violate(sigO, "chain %d (%s): active channel of %s replaced %s (%s) -> %s (%s) (after %s)", chain, role, k, oc.ID, oc.Order, nc.ID, nc.Order, s.what)
	}
	eq, ma, mb := sameMetadata(oc.Version, nc.Version)
	if !eq {
		r.violate(sigM, "chain %d (%s): active channel of %s replaced %s (%s) -> %s (%s) (after %s)", chain, role, k, oc.ID, oc.Version, nc.ID, nc.Version, s.what)
	}
	if ma.Address != mb.Address {
		r.violate("reopen-changed-address-"+role, "chain %d: active channel of %s replaced %s (account %s) -> %s (account %s) (after %s)", chain, k, oc.ID, ma.Address, nc.ID, mb.Address, s.what)
	}
}

// ---- operations -------------------------------------------------------------------------

func (r *c38Run) ctrlChans() []chanObs {
	return r.obs[ctrl].sorted(func(c chanObs) bool { return isCtrlPort(c.Port) })
}

func (r *c38Run) hostChans() []chanObs {
	return r.obs[hostc].sorted(func(c chanObs) bool { return c.Port == icatypes.HostPortID })
}

// noteReopenAttempt counts handshake starts for a (conn, port) whose active channel is CLOSED.
func (r *c38Run) noteReopenAttempt(connID, port string) {
	if id, ok := r.obs[ctrl].ctrlActive[connID+"|"+port]; ok && r.obs[ctrl].chans[port+"/"+id].State == channeltypes.CLOSED {
		r.reopenAttempts++
	}
}

func (r *c38Run) opReg(op c38Op) (sim.TxResult, string) {
	e := r.e
	owner := e.addr(ctrl, op.Owner%3)
	port := ctrlPort(owner)
	conn := op.Conn % len(e.conns)
	r.noteReopenAttempt(e.connID(conn, ctrl), port)
	msg := icacontrollertypes.NewMsgRegisterInterchainAccount(e.connID(conn, ctrl), owner, r.version(op.Ver, conn), order(op.Ord))
	s := sub{what: fmt.Sprintf("MsgRegisterInterchainAccount(owner %d, signer %d, conn %d, %s, ver %d)", op.Owner%3, op.Signer%4, conn, order(op.Ord), op.Ver%8),
		chain: ctrl, signer: op.Signer % 4, initKey: e.connID(conn, ctrl) + "|" + port}
	res := r.deliver(s, msg)
	if res.OK && op.Signer%4 != op.Owner%3 {
		r.violate("register-accepted-from-non-owner", "%s succeeded", s.what)
	}
	r.rec.Class("reg-%s", okStr(res.OK))
	if !res.OK {
		return res, ""
	}
	id, _ := ibctesting.ParseChannelIDFromEvents(res.Events)
	return res, id
}

func okStr(ok bool) string {
	if ok {
		return "accepted"
	}
	return "rejected"
}

func (r *c38Run) opInit(op c38Op) {
	e := r.e
	chain := op.Chain & 1
	conn := op.Conn % len(e.conns)
	owner := e.addr(chain, op.Owner%3)
	var port, cport string
	switch op.Port % 3 {
	case 0:
		port = ctrlPort(owner)
	case 1:
		port = icatypes.HostPortID
	case 2:
		port = ctrlPort("neverRegistered" + strconv.Itoa(op.Owner%3))
	}
	switch op.CPort % 3 {
	case 0:
		cport = icatypes.HostPortID
	case 1:
		cport = ctrlPort(owner)
	case 2:
		cport = "transfer"
	}
	// metadata must be written from the point of view of the chain that receives the message
	ver := r.version(op.Ver, conn)
	if chain == hostc && ver != "" && ver != "not-json" {
		if md, err := icatypes.MetadataFromVersion(ver); err == nil {
			md.ControllerConnectionId, md.HostConnectionId = md.HostConnectionId, md.ControllerConnectionId
			ver = string(icatypes.ModuleCdc.MustMarshalJSON(&md))
		}
	}
	if chain == ctrl && isCtrlPort(port) {
		r.noteReopenAttempt(e.connID(conn, chain), port)
	}
	msg := channeltypes.NewMsgChannelOpenInit(port, ver, order(op.Ord), []string{e.connID(conn, chain)}, cport, e.addr(chain, relayer))
	s := sub{what: fmt.Sprintf("relayer MsgChannelOpenInit(chain %d, port kind %d, counterparty port kind %d, conn %d, %s, ver %d)", chain, op.Port%3, op.CPort%3, conn, order(op.Ord), op.Ver%8),
		chain: chain, signer: relayer}
	if isCtrlPort(port) {
		s.initKey = e.connID(conn, chain) + "|" + port
	}
	res := r.deliver(s, msg)
	switch {
	case port == icatypes.HostPortID:
		r.rec.Class("init-on-host-port-%s", okStr(res.OK))
	case cport != icatypes.HostPortID:
		r.rec.Class("init-to-non-host-port-%s", okStr(res.OK))
	default:
		r.rec.Class("relayer-init-on-controller-port-%s", okStr(res.OK))
	}
}

func (r *c38Run) opTry(op c38Op) (sim.TxResult, string) {
	cs := r.ctrlChans()
	if len(cs) == 0 {
		return sim.TxResult{}, ""
	}
	c := cs[op.Ch%len(cs)]
	conn := r.connIdx(ctrl, c.Conn)
	if conn < 0 {
		return sim.TxResult{}, ""
	}
	e := r.e
	proof, ph := e.freshProof(conn, ctrl, channelKey(c.Port, c.ID))
	msg := channeltypes.NewMsgChannelOpenTry(icatypes.HostPortID, "", c.Order, []string{e.connID(conn, hostc)}, c.Port, c.ID, c.Version, proof, ph, e.addr(hostc, relayer))
	res := r.deliver(sub{what: fmt.Sprintf("MsgChannelOpenTry for controller channel %s", c.key()), chain: hostc, signer: relayer}, msg)
	r.rec.Class("try-%s", okStr(res.OK))
	if !res.OK {
		return res, ""
	}
	id, _ := ibctesting.ParseChannelIDFromEvents(res.Events)
	return res, id
}

func (r *c38Run) opAck(op c38Op) sim.TxResult {
	hs := r.hostChans()
	if len(hs) == 0 {
		return sim.TxResult{}
	}
	h := hs[op.Ch%len(hs)]
	conn := r.connIdx(hostc, h.Conn)
	if conn < 0 {
		return sim.TxResult{}
	}
	return r.ackFor(conn, h)
}

func (r *c38Run) ackFor(conn int, h chanObs) sim.TxResult {
	e := r.e
	proof, ph := e.freshProof(conn, hostc, channelKey(icatypes.HostPortID, h.ID))
	msg := channeltypes.NewMsgChannelOpenAck(h.CPPort, h.CPChan, h.ID, h.Version, proof, ph, e.addr(ctrl, relayer))
	res := r.deliver(sub{what: fmt.Sprintf("MsgChannelOpenAck for %s/%s with host channel %s", h.CPPort, h.CPChan, h.ID), chain: ctrl, signer: relayer}, msg)
	r.rec.Class("ack-%s", okStr(res.OK))
	return res
}

func (r *c38Run) opConfirm(op c38Op) sim.TxResult {
	hs := r.hostChans()
	if len(hs) == 0 {
		return sim.TxResult{}
	}
	h := hs[op.Ch%len(hs)]
	conn := r.connIdx(hostc, h.Conn)
	if conn < 0 {
		return sim.TxResult{}
	}
	return r.confirmFor(conn, h, false)
}

func (r *c38Run) confirmFor(conn int, h chanObs, closing bool) sim.TxResult {
	e := r.e
	proof, ph := e.freshProof(conn, ctrl, channelKey(h.CPPort, h.CPChan))
	var msg sdk.Msg = channeltypes.NewMsgChannelOpenConfirm(icatypes.HostPortID, h.ID, proof, ph, e.addr(hostc, relayer))
	what := "MsgChannelOpenConfirm"
	if closing {
		msg = channeltypes.NewMsgChannelCloseConfirm(icatypes.HostPortID, h.ID, proof, ph, e.addr(hostc, relayer))
		what = "MsgChannelCloseConfirm"
	}
	res := r.deliver(sub{what: fmt.Sprintf("%s for host channel %s", what, h.ID), chain: hostc, signer: relayer}, msg)
	if closing {
		r.rec.Class("closeconfirm-%s", okStr(res.OK))
	} else {
		r.rec.Class("confirm-%s", okStr(res.OK))
	}
	return res
}

func (r *c38Run) opSendTx(op c38Op) *c38Pkt {
	e := r.e
	conn := op.Conn % len(e.conns)
	owner := e.addr(ctrl, op.Owner%3)
	inner := banktypes.NewMsgSend(e.w.Addr(hostc, 1), e.w.Addr(hostc, 2), sdk.NewCoins(sdk.NewInt64Coin(ibctesting.SecondaryDenom, 1)))
	bz, err := icatypes.SerializeCosmosTx(e.w.App(ctrl).AppCodec(), []proto.Message{inner}, icatypes.EncodingProtobuf)
	if err != nil {
		vx.Harnessf("SerializeCosmosTx: %v", err)
	}
	rel := uint64(time.Hour)
	if op.Short {
		rel = uint64(10 * time.Second)
	}
	msg := icacontrollertypes.NewMsgSendTx(owner, e.connID(conn, ctrl), rel, icatypes.InterchainAccountPacketData{Type: icatypes.EXECUTE_TX, Data: bz})
	signer := op.Signer % 4
	// remember the channel the packet would go out on
	port := ctrlPort(owner)
	active, hasActive := r.obs[ctrl].ctrlActive[e.connID(conn, ctrl)+"|"+port]
	res := r.deliver(sub{what: fmt.Sprintf("MsgSendTx(owner %d, signer %d, conn %d)", op.Owner%3, signer, conn), chain: ctrl, signer: signer, sendTx: msg}, msg)
	if signer == op.Owner%3 {
		r.rec.Class("sendtx-by-owner-%s", okStr(res.OK))
	} else {
		r.rec.Class("sendtx-by-other-%s", okStr(res.OK))
	}
	if !res.OK || !hasActive {
		return nil
	}
	c := r.obs[ctrl].chans[port+"/"+active]
	l := e.link(conn, c.Order == channeltypes.ORDERED, port, active, c.CPChan)
	p := e.notePacket(l, res)
	if p == nil {
		return nil
	}
	r.pkts = append(r.pkts, c38Pkt{link: l, pkt: p})
	return &r.pkts[len(r.pkts)-1]
}

func (r *c38Run) opRecv(p c38Pkt) {
	e := r.e
	h := e.w.FreshHeight(p.link, 1, relayer)
	res := r.deliver(sub{what: "MsgRecvPacket " + p.pkt.String(), chain: hostc, signer: relayer}, e.w.BuildRecv(p.pkt, h, relayer))
	r.rec.Class("recv-%s", okStr(res.OK))
}

func (r *c38Run) opTimeout(p c38Pkt) sim.TxResult {
	e := r.e
	h := e.w.FreshHeight(p.link, 0, relayer)
	res := r.deliver(sub{what: "MsgTimeout " + p.pkt.String(), chain: ctrl, signer: relayer}, e.w.BuildTimeout(p.pkt, e.w.NextSeqRecv(p.pkt), h, relayer))
	r.rec.Class("timeout-%s", okStr(res.OK))
	return res
}

func (r *c38Run) advance() {
	r.e.w.AdvanceTime(time.Minute)
	r.e.w.Block(ctrl, 1)
	r.e.w.Block(hostc, 1)
}

func (r *c38Run) exec(op c38Op) {
	e := r.e
	switch op.K {
	case "open": // honest handshake started by the owner; stops at the first rejected step
		op.Signer = op.Owner % 3
		res, id := r.opReg(op)
		if !res.OK || id == "" {
			return
		}
		cs := r.ctrlChans()
		for i, c := range cs {
			if c.ID == id {
				op.Ch = i
			}
		}
		res, hid := r.opTry(op)
		if !res.OK || hid == "" {
			return
		}
		h, ok := r.obs[hostc].chans[icatypes.HostPortID+"/"+hid]
		if !ok {
			return
		}
		conn := r.connIdx(hostc, h.Conn)
		if res = r.ackFor(conn, h); !res.OK {
			return
		}
		r.confirmFor(conn, h, false)
	case "reg":
		r.opReg(op)
	case "init":
		r.opInit(op)
	case "try":
		r.opTry(op)
	case "ack":
		r.opAck(op)
	case "confirm":
		r.opConfirm(op)
	case "sendtx":
		r.opSendTx(op)
	case "recv":
		if len(r.pkts) > 0 {
			r.opRecv(r.pkts[op.Ch%len(r.pkts)])
		}
	case "timeout":
		if len(r.pkts) > 0 {
			r.opTimeout(r.pkts[op.Ch%len(r.pkts)])
		}
	case "close": // the owner's packet times out: an ORDERED channel closes
		op.Signer, op.Short = op.Owner%3, true
		p := r.opSendTx(op)
		if p == nil {
			return
		}
		r.advance()
		r.opTimeout(*p)
	case "closeconfirm":
		hs := r.hostChans()
		if len(hs) > 0 {
			h := hs[op.Ch%len(hs)]
			if conn := r.connIdx(hostc, h.Conn); conn >= 0 {
				r.confirmFor(conn, h, true)
			}
		}
	case "closeinit":
		chain := op.Chain & 1
		var cs []chanObs
		if chain == ctrl {
			cs = r.ctrlChans()
		} else {
			cs = r.hostChans()
		}
		if len(cs) > 0 {
			c := cs[op.Ch%len(cs)]
			res := r.deliver(sub{what: "relayer MsgChannelCloseInit " + c.key(), chain: chain, signer: relayer}, channeltypes.NewMsgChannelCloseInit(c.Port, c.ID, e.addr(chain, relayer)))
			r.rec.Class("closeinit-%s", okStr(res.OK))
		}
	case "adv":
		r.advance()
	default:
		vx.Harnessf("unknown op %q", op.K)
	}
}


func runC38(outer *testing.T) func(t rapid.TB, c c38Case, rec *vx.Case) {
	return func(t rapid.TB, c c38Case, rec *vx.Case) {
		e := newEnv(outer, 2)
		r := &c38Run{t: t, rec: rec, e: e, born: map[string]string{}}
		r.obs = [2]chainObs{e.observe(0), e.observe(1)}
		for i, op := range c.Ops {
			r.step = i
			r.exec(op)
		}
		if r.sawClosed {
			rec.Class("history-with-close")
		}
		if r.reopened > 0 {
			rec.Class("history-with-completed-reopen")
		}
		rec.Add("reopen_attempts", int64(r.reopenAttempts))
		rec.Add("reopens_completed", int64(r.reopened))
		rec.Add("ops", int64(len(c.Ops)))
		rec.NonTrivialIf(r.sawClosed && r.reopenAttempts > 0)
	}
}

// ---- generator ----------------------------------------------------------------------------

func genC38Op(t *rapid.T, focus int) c38Op {
	kinds := []string{"open", "open", "reg", "reg", "reg", "init", "init", "init", "try", "try", "ack", "ack", "ack", "confirm", "confirm",
		"sendtx", "sendtx", "sendtx", "recv", "timeout", "close", "close", "closeconfirm", "closeinit", "adv"}
	op := c38Op{K: rapid.SampledFrom(kinds).Draw(t, "k")}
	// most operations concern the focus owner on connection 0 so that histories collide
	op.Owner = focus
	if rapid.IntRange(0, 4).Draw(t, "otherowner") == 0 {
		op.Owner = rapid.IntRange(0, 2).Draw(t, "owner")
	}
	op.Signer = op.Owner
	if rapid.IntRange(0, 2).Draw(t, "othersigner") == 0 {
		op.Signer = rapid.IntRange(0, 3).Draw(t, "signer")
	}
	if rapid.IntRange(0, 5).Draw(t, "conn1") == 0 {
		op.Conn = 1
	}
	op.Ord = rapid.IntRange(0, 3).Draw(t, "ord") != 0
	op.Ver = rapid.SampledFrom([]int{0, 0, 0, 1, 1, 2, 2, 3, 4, 5, 6, 7}).Draw(t, "ver")
	op.Ch = rapid.IntRange(0, 5).Draw(t, "ch")
	switch op.K {
	case "init":
		op.Chain = rapid.SampledFrom([]int{0, 0, 0, 1}).Draw(t, "chain")
		op.Port = rapid.SampledFrom([]int{0, 0, 0, 1, 1, 2}).Draw(t, "port")
		op.CPort = rapid.SampledFrom([]int{0, 0, 0, 0, 1, 2}).Draw(t, "cport")
	case "closeinit":
		op.Chain = rapid.IntRange(0, 1).Draw(t, "chain")
	case "sendtx":
		op.Short = rapid.Bool().Draw(t, "short")
	}
	return op
}

func genC38(t *rapid.T) c38Case {
	focus := rapid.IntRange(0, 2).Draw(t, "focus")
	var ops []c38Op
	rnd := func(lo, hi int) {
		k := rapid.IntRange(lo, hi).Draw(t, "nrandom")
		for i := 0; i < k; i++ {
			ops = append(ops, genC38Op(t, focus))
		}
	}
	ordered := rapid.IntRange(0, 5).Draw(t, "ordered") != 0
	ver := rapid.SampledFrom([]int{0, 1, 2}).Draw(t, "ver")
	// a handshake start for the focus owner: same or different ordering / version, by the
	// owner (open = full honest handshake, reg = first step only) or by a relayer (init)
	attempt := func() {
		op := c38Op{K: rapid.SampledFrom([]string{"open", "open", "open", "reg", "init"}).Draw(t, "attempt"), Owner: focus, Signer: focus, Ord: ordered, Ver: ver}
		switch rapid.IntRange(0, 5).Draw(t, "vary") {
		case 0:
			op.Ord = !ordered
		case 1:
			op.Ver = rapid.IntRange(0, 7).Draw(t, "ver2")
		case 2:
			op.Ord, op.Ver = !ordered, rapid.IntRange(0, 2).Draw(t, "ver3")
		}
		ops = append(ops, op)
	}
	switch rapid.IntRange(0, 9).Draw(t, "template") {
	case 0, 1, 2, 3: // open, (start another handshake while open), close, reopen attempts
		rnd(0, 2)
		ops = append(ops, c38Op{K: "open", Owner: focus, Signer: focus, Ord: ordered, Ver: ver})
		if rapid.Bool().Draw(t, "initwhileopen") {
			attempt()
		}
		rnd(0, 2)
		ops = append(ops, c38Op{K: "close", Owner: focus, Signer: focus})
		rnd(0, 1)
		if rapid.IntRange(0, 2).Draw(t, "closeconfirm") != 0 {
			ops = append(ops, c38Op{K: "closeconfirm", Ch: rapid.IntRange(0, 1).Draw(t, "cch")})
		}
		for i, n := 0, rapid.IntRange(1, 3).Draw(t, "nattempts"); i < n; i++ {
			attempt()
			rnd(0, 1)
		}
		rnd(0, 4)
	case 4, 5, 6: // two handshakes in flight for one owner, one completes, closes, the other is continued
		rnd(0, 1)
		ops = append(ops, c38Op{K: "reg", Owner: focus, Signer: focus, Ord: ordered, Ver: ver})
		rnd(0, 1)
		second := genC38Op(t, focus)
		second.K, second.Owner, second.Signer, second.Conn = rapid.SampledFrom([]string{"reg", "reg", "init"}).Draw(t, "second"), focus, focus, 0
		second.Chain, second.Port, second.CPort = 0, 0, 0
		ops = append(ops, second)
		ops = append(ops, c38Op{K: "try", Ch: 0}, c38Op{K: "try", Ch: 1})
		first := rapid.IntRange(0, 1).Draw(t, "first")
		ops = append(ops, c38Op{K: "ack", Ch: first}, c38Op{K: "confirm", Ch: first})
		rnd(0, 2)
		ops = append(ops, c38Op{K: "close", Owner: focus, Signer: focus})
		rnd(0, 2)
		ops = append(ops, c38Op{K: "ack", Ch: 1 - first})
		rnd(0, 1)
		ops = append(ops, c38Op{K: "confirm", Ch: 1 - first})
		if rapid.IntRange(0, 3).Draw(t, "thenattempt") != 0 {
			attempt()
		}
		rnd(0, 3)
	default:
		rnd(6, 16)
	}
	return c38Case{Ops: ops}
}

func TestC38(t *testing.T) {
	vx.Check(t, vx.Prop[c38Case]{
		ID: "C38",
		Rule: "histories (<= ~25 ops) over 2 chains / 2 connections of: owner-started honest handshakes, MsgRegisterInterchainAccount (3 owners, any signer, ORDERED/UNORDERED, 8 version variants), relayer MsgChannelOpenInit on controller / host / unregistered ports with host / controller / transfer counterparty ports, single relayed Try/Ack/Confirm/CloseConfirm steps with real proofs, MsgSendTx by owner or by another signer, packet receive, timeouts closing ORDERED channels, relayer MsgChannelCloseInit, time advance; " +
			"three templates (open-close-reopen, two handshakes in flight, free form); non-trivial = a controller channel reached CLOSED and a handshake start (register / init) was attempted for a (connection, port) whose active channel is CLOSED; distinct by full history",
		MinNTFrac: 0.3,
		Gen:       genC38,
		Run:       runC38(t),
	})
}

// c38InFlightHistory: the owner registers twice before any handshake completes (ORDERED
// proto3, then UNORDERED proto3json); both reach TRYOPEN on the host; the first becomes
// active and is closed by a timeout; the relayer then completes the second handshake.
func c38InFlightHistory() c38Case {
	return c38Case{Ops: []c38Op{
		{K: "reg", Owner: 0, Signer: 0, Ord: true, Ver: 1},
		{K: "reg", Owner: 0, Signer: 0, Ord: false, Ver: 2},
		{K: "try", Ch: 0}, {K: "try", Ch: 1},
		{K: "ack", Ch: 0}, {K: "confirm", Ch: 0},
		{K: "ack", Ch: 1},
		{K: "close", Owner: 0, Signer: 0},
		{K: "ack", Ch: 1}, {K: "confirm", Ch: 1},
		{K: "sendtx", Owner: 0, Signer: 0},
	}}
}

func TestC38InFlight(t *testing.T) {
	run, done := runC38(t), false
	vx.Check(t, vx.Prop[c38Case]{
		ID:   "C38",
		Rule: "deterministic history: two handshakes in flight for one owner with different ordering and encoding; the second is acknowledged after the first channel closed",
		Gen:  func(*rapid.T) c38Case { return c38InFlightHistory() },
		Run: func(rt rapid.TB, c c38Case, rec *vx.Case) {
			if done { // the history is fixed: one execution per process is all there is to learn
				rec.Class("repeat-of-fixed-history-skipped")
				return
			}
			run(rt, c, rec) // does not return when a violation is reported
			done = true
		},
	})
}
