package pktc

import (
	"sort"
	"strings"
	"testing"

	"pgregory.net/rapid"

	channeltypesv2 "github.com/cosmos/ibc-go/v11/modules/core/04-channel/v2/types"

	"github.com/cosmos/ibc-go/v11/modules/apps/callbacks/verifx/sim"
	"github.com/cosmos/ibc-go/v11/modules/apps/callbacks/verifx/vx"
)

// candidates returns the indices (into x.main) of the packets a valid message can be built for right now.
func (x *exec) candidates() []int {
	var out []int
	for j, p := range x.main {
		if x.c.Prop == "C05" {
			if !x.recvd[p.Idx] {
				out = append(out, j)
			}
		} else if x.recvd[p.Idx] && !x.acked[p.Idx] && x.ackKnown(p) {
			out = append(out, j)
		}
	}
	if x.L.Kind == sim.V1Ordered && len(out) > 1 {
		out = out[:1] // ordered channels: only the next packet in order is valid
	}
	return out
}

// buildValid builds the honest message for main packet j with a fresh proof height.
func (x *exec) buildValid(j int, sig int) (*rmsg, *tctx) {
	w := x.w
	p := x.main[j]
	c := &tctx{x: x, p: p, j: j}
	m := &rmsg{V2: p.V2, IsAck: x.c.Prop == "C06", P1: p.P1, P2: p.P2, Sig: sig}
	if m.IsAck {
		c.side, c.vc, c.pc = p.Dir, w.SrcChain(p), w.DstChain(p)
		m.A1 = p.Ack1
		if p.Ack2 != nil {
			m.A2 = *p.Ack2
		}
	} else {
		c.side, c.vc, c.pc = 1-p.Dir, w.DstChain(p), w.SrcChain(p)
	}
	c.h = w.FreshHeight(x.L, c.side, sig)
	key := c.proofKey(p)
	bz, ph := w.Proof(c.pc, key, c.h)
	m.Proof, m.PH = bz, ph
	m.MChain, m.MKey, m.MHeight = c.pc, key, c.h
	for _, q := range w.Pkts {
		if q != p && q.V2 == p.V2 && q.Dir == p.Dir && (q.Link == x.L.Idx || q.Link == x.Sib.Idx) {
			c.others = append(c.others, q)
		}
	}
	return m.clone(), c
}

func runCase(outer *testing.T) func(t rapid.TB, c mcase, rec *vx.Case) {
	return func(t rapid.TB, c mcase, rec *vx.Case) {
		x := buildWorld(outer, c)
		x.rec = rec
		x.prefix()
		lk := x.L.Kind.String()
		rec.Class("link:%s", lk)
		binding := 0
		var keyParts []string
		for ti, tr := range c.Trials {
			cands := x.candidates()
			if len(cands) == 0 {
				rec.Add("no_candidate", 1)
				break
			}
			j := cands[tr.Pick%len(cands)]
			p := x.main[j]
			m0, tc := x.buildValid(j, tr.Sig)
			if v := x.verdict(m0, tc.vc); v != "" {
				// the honest message is not valid at this moment (e.g. the prefix let a timeout pass)
				rec.Add("honest_invalid", 1)
				rec.Class("honest-invalid:%s", v)
				break
			}
			rec.Add("trials", 1)
			rec.Class("target-ack:%s", ackClass(x, j))
			envLabels := tc.applyEnv(tr.Muts)
			env := len(envLabels) > 0
			if env {
				rec.Add("env_trials", 1)
			}
			noteLabel := func(lab string) {
				kind := lab
				if i := strings.IndexByte(lab, '.'); i > 0 {
					kind = lab[:i]
				}
				rec.Class("mut:%s|%s", kind, lk)
				rec.Class("var:%s", lab)
			}
			for _, lab := range envLabels {
				noteLabel(lab)
			}
			// the message mutations are applied cumulatively: message k carries mutations 1..k
			m := m0.clone()
			labels := append([]string{}, envLabels...)
			consumed, forbidden := false, 0
			var msgMuts []mut
			for _, mu := range tr.Muts {
				if !isEnv(mu.K) {
					msgMuts = append(msgMuts, mu)
				}
			}
			for k := 0; k <= len(msgMuts) && !consumed; k++ {
				if k == 0 {
					if !env {
						continue // nothing mutated yet
					}
				} else {
					lab := tc.apply(m, msgMuts[k-1])
					if lab == "" {
						rec.Add("mut_inapplicable", 1)
						continue
					}
					noteLabel(lab)
					labels = append(labels, lab)
					if m.equalWire(m0) && !env {
						rec.Add("identity_mutations", 1)
						rec.Class("outcome:identity")
						continue
					}
				}
				rec.Add("mutated_submitted", 1)
				acc, v := x.submit(t, m.clone(), tc.vc, "mutated "+strings.Join(labels, "+"))
				switch {
				case v != "" && !acc:
					rec.Add("mutated_rejected", 1)
					rec.Class("forbidden-by:%s", v)
					forbidden++
				case v == "" && acc:
					rec.Add("neutral_accepted", 1)
					rec.Class("outcome:neutral-accepted")
					consumed = true
					if k == 0 {
						rec.Add("env_control_accepted", 1)
						rec.Class("env-control-accepted:%s|%s", strings.Join(envLabels, "+"), lk)
					}
				case v == "":
					rec.Add("neutral_rejected", 1)
					rec.Class("outcome:neutral-rejected")
				}
			}
			sorted := append([]string{}, labels...)
			sort.Strings(sorted)
			keyParts = append(keyParts, strings.Join(sorted, "+"))
			// control: the unmutated message right afterwards
			if env {
				binding += forbidden // the honest message was valid before the environment mutation (checked above)
			} else if !consumed {
				acc0, v0 := x.submit(t, m0, tc.vc, "control")
				if acc0 {
					consumed = true
					rec.Add("control_ok", 1)
					binding += forbidden
				} else {
					rec.Add("control_failed", 1)
					rec.Class("control-failed:%s", v0)
				}
			}
			if consumed {
				if c.Prop == "C05" {
					x.recvd[p.Idx] = true
				} else {
					x.acked[p.Idx] = true
				}
			}
			if env {
				break
			}
			_ = ti
		}
		rec.Add("packets", int64(len(x.w.Pkts)))
		rec.NonTrivialIf(binding >= 1)
		rec.Key("%s|%s|%s", c.Prop, lk, strings.Join(keyParts, ";"))
	}
}

func ackClass(x *exec, j int) string {
	sp := x.c.Pk[j]
	if isAsync(sp) {
		return "async-" + sp.AAck
	}
	for _, o := range sp.Out {
		if o == "err" {
			return "error"
		}
	}
	return "success"
}

var _ = channeltypesv2.ErrorAcknowledgement
