package vx

import (
	"math"

	"pgregory.net/rapid"
)

// U64 draws a uint64 biased toward boundaries (0, 1, powers of two ±1, max) as well as
// uniformly random values.
func U64() *rapid.Generator[uint64] {
	return rapid.Custom(func(t *rapid.T) uint64 {
		switch rapid.IntRange(0, 9).Draw(t, "u64kind") {
		case 0:
			return rapid.SampledFrom([]uint64{0, 1, 2, math.MaxUint64, math.MaxUint64 - 1, 1 << 63, 1<<63 - 1, 1<<63 + 1,
				1 << 53, 1<<53 - 1, 1<<53 + 1, 1 << 32, 1<<32 - 1, 1<<32 + 1, math.MaxInt64}).Draw(t, "u64const")
		case 1, 2:
			return rapid.Uint64Range(0, 16).Draw(t, "u64small")
		case 3:
			sh := rapid.IntRange(0, 63).Draw(t, "u64shift")
			d := rapid.Int64Range(-2, 2).Draw(t, "u64delta")
			return uint64(1)<<uint(sh) + uint64(d)
		default:
			return rapid.Uint64().Draw(t, "u64")
		}
	})
}

// Near draws a value in {v-2..v+2} (wrapping) — used to place inputs around a boundary.
func Near(t *rapid.T, v uint64, label string) uint64 {
	d := rapid.Int64Range(-2, 2).Draw(t, label)
	return v + uint64(d)
}
