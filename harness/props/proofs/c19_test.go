package proofs

import (
	"math/big"
	"testing"
	"time"

	"pgregory.net/rapid"

	sdk "github.com/cosmos/cosmos-sdk/types"

	clienttypes "github.com/cosmos/ibc-go/v11/modules/core/02-client/types"
	connectiontypes "github.com/cosmos/ibc-go/v11/modules/core/03-connection/types"
	commitmenttypes "github.com/cosmos/ibc-go/v11/modules/core/23-commitment/types"
	host "github.com/cosmos/ibc-go/v11/modules/core/24-host"
	"github.com/cosmos/ibc-go/v11/modules/core/exported"
	ibctm "github.com/cosmos/ibc-go/v11/modules/light-clients/07-tendermint"

	"github.com/cosmos/ibc-go/v11/modules/apps/callbacks/verifx/sim"
	"github.com/cosmos/ibc-go/v11/modules/apps/callbacks/verifx/vx"
)

// C19: packet proofs are accepted only after the connection's time delay AND a block delay
// have passed since the consensus state was processed; the block delay is exactly
// ceil(delay / maxExpectedTimePerBlock) (0 when the parameter is 0) for every pair of
// 64-bit inputs.
//
//   TestC19Arith    the block delay ibc-go hands to the light client, observed through a
//                   recording LightClientModule registered under a test client type
//                   (no internals touched), compared with math/big.
//   TestC19Enforce  the 07-tendermint module's VerifyMembership/VerifyNonMembership on a real
//                   client with a real proof, generated processed time/height metadata and
//                   block time/height placed around the boundary, oracle in math/big.
//   TestC19E2E      the same through ConnectionKeeper.VerifyPacketCommitment (status check,
//                   getBlockDelay and the light client together) at the chain's real time.
//   TestC19Known    fixed minimal inputs, one per root cause (deterministic re-demonstration).

const (
	c19 = "C19"
	// structural signatures of the three root causes seen on the pinned tree
	sigFloat      = "blockdelay-float-inexact" // float64 ceil: wrong once an input needs > 53 bits
	sigTimeWrap   = "delay-time-overflow"      // processedTime + delay wraps around 2^64
	sigHeightWrap = "delay-height-overflow"    // processedHeight + blockDelay wraps around 2^64
	two53         = uint64(1) << 53
	maxI63        = uint64(1)<<63 - 1
)

// ---- model ------------------------------------------------------------------------------

func modelBlockDelay(delay, p uint64) *big.Int {
	if p == 0 {
		return new(big.Int)
	}
	q, r := new(big.Int).QuoRem(bigU(delay), bigU(p), new(big.Int))
	if r.Sign() != 0 {
		q.Add(q, big.NewInt(1))
	}
	return q
}

// ---- recording light client module -------------------------------------------------------

const recClientType = "99-vxrec"
const recClientID = recClientType + "-0"

type recCall struct {
	NonMember bool
	T, B      uint64
}

type recModule struct{ calls []recCall }

var _ exported.LightClientModule = (*recModule)(nil)

func (*recModule) Initialize(sdk.Context, string, []byte, []byte) error { return nil }
func (*recModule) VerifyClientMessage(sdk.Context, string, exported.ClientMessage) error {
	return nil
}
func (*recModule) CheckForMisbehaviour(sdk.Context, string, exported.ClientMessage) bool {
	return false
}
func (*recModule) UpdateStateOnMisbehaviour(sdk.Context, string, exported.ClientMessage) {}
func (*recModule) UpdateState(sdk.Context, string, exported.ClientMessage) []exported.Height {
	return nil
}
func (m *recModule) VerifyMembership(_ sdk.Context, _ string, _ exported.Height, t, b uint64, _ []byte, _ exported.Path, _ []byte) error {
	m.calls = append(m.calls, recCall{false, t, b})
	return nil
}
func (m *recModule) VerifyNonMembership(_ sdk.Context, _ string, _ exported.Height, t, b uint64, _ []byte, _ exported.Path) error {
	m.calls = append(m.calls, recCall{true, t, b})
	return nil
}
func (*recModule) Status(sdk.Context, string) exported.Status { return exported.Active }
func (*recModule) LatestHeight(sdk.Context, string) exported.Height {
	return clienttypes.NewHeight(1, 100)
}
func (*recModule) TimestampAtHeight(sdk.Context, string, exported.Height) (uint64, error) {
	return 1, nil
}
func (*recModule) RecoverClient(sdk.Context, string, string) error { return nil }
func (*recModule) VerifyUpgradeAndUpdateState(sdk.Context, string, []byte, []byte, []byte, []byte) error {
	return nil
}

type arithWorld struct {
	w   *sim.World
	rec *recModule
}

func getArithWorld(outer *testing.T) *arithWorld {
	return sharedWorld("c19arith", func() *arithWorld {
		aw := &arithWorld{w: sim.NewWorld(outer, 1, nil), rec: &recModule{}}
		sim.Guard("AddRoute", func() { aw.w.App(0).IBCKeeper.ClientKeeper.AddRoute(recClientType, aw.rec) })
		return aw
	})
}

// ---- arithmetic --------------------------------------------------------------------------

type c19Arith struct {
	Delay uint64
	P     uint64 // MaxExpectedTimePerBlock
}

func genC19Arith(t *rapid.T) c19Arith {
	switch rapid.IntRange(0, 9).Draw(t, "kind") {
	case 0, 1: // independent boundary-biased values
		return c19Arith{vx.U64().Draw(t, "delay"), vx.U64().Draw(t, "p")}
	case 2: // parameter zero
		return c19Arith{vx.U64().Draw(t, "delay"), 0}
	case 3: // one nanosecond per block: the block delay is the delay itself
		return c19Arith{vx.U64().Draw(t, "delay"), 1}
	case 4, 5, 6: // exact multiple of p, +-1 (any magnitude)
		p := vx.U64().Draw(t, "p")
		if p == 0 {
			p = 1
		}
		k := rapid.Uint64Range(0, ^uint64(0)/p).Draw(t, "k")
		return c19Arith{nearNoWrap(t, k*p, "delta"), p}
	case 7, 8: // realistic block times (1 ms .. 10 min), multiples +-1 of any size incl. > 2^53 ns (~104 days)
		p := rapid.Uint64Range(1_000_000, 600_000_000_000).Draw(t, "p")
		k := rapid.Uint64Range(0, ^uint64(0)/p).Draw(t, "k")
		if rapid.Bool().Draw(t, "small") {
			k = rapid.Uint64Range(0, 1<<22).Draw(t, "ksmall")
		}
		return c19Arith{nearNoWrap(t, k*p, "delta"), p}
	default: // p above the delay, or equal to it +-1
		d := vx.U64().Draw(t, "delay")
		return c19Arith{d, nearNoWrap(t, d, "pnear")}
	}
}

// nearNoWrap returns v+d for d in -1..1 without wrapping.
func nearNoWrap(t *rapid.T, v uint64, label string) uint64 {
	switch rapid.IntRange(-1, 1).Draw(t, label) {
	case -1:
		if v > 0 {
			return v - 1
		}
	case 1:
		if v < ^uint64(0) {
			return v + 1
		}
	}
	return v
}

func runC19Arith(outer *testing.T) func(rapid.TB, c19Arith, *vx.Case) {
	return func(t rapid.TB, c c19Arith, rec *vx.Case) {
		aw := getArithWorld(outer)
		checkArith(t, aw, c, rec)
		big53 := c.Delay >= two53 || c.P >= two53
		mult := c.P != 0 && c.Delay%c.P <= 1 || c.P != 0 && c.Delay%c.P == c.P-1
		switch {
		case c.P == 0:
			rec.Class("p-zero")
		case c.P > c.Delay:
			rec.Class("p-above-delay")
		case mult:
			rec.Class("multiple+-1")
		default:
			rec.Class("generic")
		}
		if big53 {
			rec.Class("needs->53-bits")
		} else {
			rec.Class("fits-53-bits")
		}
		rec.NonTrivialIf(big53 || (mult && c.P > 1 && c.Delay >= c.P-1))
	}
}

func checkArith(t rapid.TB, aw *arithWorld, c c19Arith, rec *vx.Case) {
	app := aw.w.App(0)
	ctx, _ := aw.w.Ctx(0).CacheContext()
	app.IBCKeeper.ConnectionKeeper.SetParams(ctx, connectiontypes.NewParams(c.P))
	conn := connectiontypes.ConnectionEnd{
		ClientId:     recClientID,
		State:        connectiontypes.OPEN,
		DelayPeriod:  c.Delay,
		Counterparty: connectiontypes.NewCounterparty("07-tendermint-0", "connection-0", commitmenttypes.NewMerklePrefix([]byte("ibc"))),
	}
	h := clienttypes.NewHeight(1, 5)
	ck := app.IBCKeeper.ConnectionKeeper
	aw.rec.calls = aw.rec.calls[:0]
	names := []string{"VerifyPacketCommitment", "VerifyPacketAcknowledgement", "VerifyPacketReceiptAbsence", "VerifyNextSequenceRecv"}
	errs := []error{
		ck.VerifyPacketCommitment(ctx, conn, h, []byte{1}, "mock", "channel-0", 1, []byte{1}),
		ck.VerifyPacketAcknowledgement(ctx, conn, h, []byte{1}, "mock", "channel-0", 1, []byte{1}),
		ck.VerifyPacketReceiptAbsence(ctx, conn, h, []byte{1}, "mock", "channel-0", 1),
		ck.VerifyNextSequenceRecv(ctx, conn, h, []byte{1}, "mock", "channel-0", 1),
	}
	for i, err := range errs {
		if err != nil {
			vx.Harnessf("%s did not reach the recording client: %v", names[i], err)
		}
	}
	if len(aw.rec.calls) != 4 {
		vx.Harnessf("recording client saw %d calls, want 4", len(aw.rec.calls))
	}
	want := modelBlockDelay(c.Delay, c.P)
	for i, call := range aw.rec.calls {
		if call.T != c.Delay {
			vx.Violatef(t, rec, c19, "timedelay-not-forwarded", "%s: light client was handed time delay %d, connection delay is %d", names[i], call.T, c.Delay)
		}
		if bigU(call.B).Cmp(want) != 0 {
			sig := "blockdelay-mismatch"
			if c.Delay >= two53 || c.P >= two53 {
				sig = sigFloat
			}
			if vx.Violatef(t, rec, c19, sig, "%s: block delay handed to the light client = %d, exact ceil(%d / %d) = %s", names[i], call.B, c.Delay, c.P, want) {
				rec.Add("known_"+sig, 1)
				return
			}
		}
	}
	rec.Add("arith_exact", 1)
}

func TestC19Arith(t *testing.T) {
	vx.Check(t, vx.Prop[c19Arith]{
		ID:        c19,
		Rule:      "(delay, maxExpectedTimePerBlock) over uint64^2 biased to 0, 1, 2^53+-1, 2^63, 2^64-1 and exact multiples +-1; all four packet verify functions of the connection keeper called against a recording light client module; non-trivial = an input needs more than 53 bits, or delay is within 1 of a non-zero multiple of p>1; distinct by (delay,p)",
		MinNTFrac: 0.4,
		Gen:       genC19Arith,
		Run:       runC19Arith(t),
	})
}

// ---- enforcement on a real tendermint client ------------------------------------------------

type enfWorld struct {
	w        *sim.World
	l        *sim.Link
	clientID string // on chain 1, tracks chain 0
	connID   string // on chain 1
	ph       clienttypes.Height
	memProof []byte
	memPath  exported.Path
	memValue []byte
	nmProof  []byte
	nmPath   exported.Path
	pkt      *sim.Pkt
	rev      uint64
}

func getEnfWorld(outer *testing.T) *enfWorld {
	return sharedWorld("c19enf", func() *enfWorld {
		e := &enfWorld{w: sim.NewWorld(outer, 2, nil)}
		w := e.w
		e.l = w.AddLink(sim.V1Unordered, 0, 1, nil)
		p, err := w.SendV1(e.l, 0, clienttypes.NewHeight(1, 1_000_000), 0, sim.Script{N: 1}.Bytes())
		if err != nil {
			vx.Harnessf("send: %v", err)
		}
		e.pkt = p
		h := w.FreshHeight(e.l, 1, 0)
		e.clientID = e.l.Client(1)
		e.connID = e.l.Path.EndpointB.ConnectionID
		var ph clienttypes.Height
		e.memProof, ph = w.Proof(0, p.CommitmentKey(), h)
		e.ph = ph
		e.rev = clienttypes.ParseChainID(w.Chains[1].ChainID)
		prefix := commitmenttypes.NewMerklePrefix([]byte("ibc"))
		e.memPath, err = commitmenttypes.ApplyPrefix(prefix, commitmenttypes.NewMerklePath(p.CommitmentKey()))
		if err != nil {
			vx.Harnessf("ApplyPrefix: %v", err)
		}
		e.memValue = clone(w.Ctx(0).KVStore(w.App(0).GetKey("ibc")).Get(p.CommitmentKey()))
		nmKey := host.PacketReceiptKey(p.P1.SourcePort, p.P1.SourceChannel, 77)
		e.nmProof, _ = w.Proof(0, nmKey, h)
		e.nmPath, _ = commitmenttypes.ApplyPrefix(prefix, commitmenttypes.NewMerklePath(nmKey))
		// control: with no delays both proofs verify (otherwise acceptance below means nothing)
		ctx, _ := w.Ctx(1).CacheContext()
		mod, err := w.App(1).IBCKeeper.ClientKeeper.Route(ctx, e.clientID)
		if err != nil {
			vx.Harnessf("route: %v", err)
		}
		if err := mod.VerifyMembership(ctx, e.clientID, e.ph, 0, 0, e.memProof, e.memPath, e.memValue); err != nil {
			vx.Harnessf("control membership proof does not verify: %v", err)
		}
		if err := mod.VerifyNonMembership(ctx, e.clientID, e.ph, 0, 0, e.nmProof, e.nmPath); err != nil {
			vx.Harnessf("control non-membership proof does not verify: %v", err)
		}
		return e
	})
}

type c19Enf struct {
	PT, PH    uint64 // processed time (ns) / processed revision height stored for the consensus state
	Now, NH   uint64 // block time (ns) / block height of the verifying context; PT<=Now, PH<=NH
	D, BD     uint64 // delayTimePeriod, delayBlockPeriod handed to the light client
	NonMember bool
}

// genPlacement draws (processed, now, delay) with processed <= now <= 2^63-1 and the
// delay placed relative to now-processed.
func genPlacement(t *rapid.T, label string, minProcessed uint64) (p, now, d uint64, kind string) {
	switch rapid.IntRange(0, 3).Draw(t, label+"pkind") {
	case 0:
		p = rapid.Uint64Range(minProcessed, 1<<20).Draw(t, label+"psmall")
	case 1:
		p = rapid.Uint64Range(1_500_000_000_000_000_000, 1_700_000_000_000_000_000).Draw(t, label+"preal")
	case 2:
		p = maxI63 - rapid.Uint64Range(0, 1<<20).Draw(t, label+"phigh")
	default:
		p = rapid.Uint64Range(minProcessed, maxI63).Draw(t, label+"pany")
	}
	switch rapid.IntRange(0, 9).Draw(t, label+"kind") {
	case 0: // no delay
		kind = "none"
		now = rapid.Uint64Range(p, maxI63).Draw(t, label+"now")
	case 1, 2, 3, 4: // boundary: valid = p+d <= 2^63-1, now = valid + {-2..2}
		kind = "boundary"
		d = rapid.Uint64Range(0, maxI63-p).Draw(t, label+"d")
		if rapid.Bool().Draw(t, label+"dsmall") {
			d = rapid.Uint64Range(0, min(maxI63-p, 1<<16)).Draw(t, label+"dsm")
		}
		valid := p + d
		delta := rapid.Int64Range(-2, 2).Draw(t, label+"delta")
		now = valid + uint64(delta)
		if delta < 0 && valid < uint64(-delta) {
			now = 0
		}
		now = max(p, min(now, maxI63))
	case 5, 6: // p+d >= 2^64: can never have passed
		kind = "overflow"
		if p == 0 {
			p = 1
		}
		x := rapid.Uint64Range(0, p-1).Draw(t, label+"x")
		if rapid.Bool().Draw(t, label+"xsmall") {
			x = min(x, rapid.Uint64Range(0, 4).Draw(t, label+"xs"))
		}
		d = (^uint64(0) - p) + 1 + x // 2^64 - p + x, fits because x < p
		now = rapid.Uint64Range(p, maxI63).Draw(t, label+"now")
		if rapid.Bool().Draw(t, label+"nowp") {
			now = p
		}
	case 7: // 2^63 <= p+d < 2^64: beyond any representable block time/height
		kind = "beyond"
		lo := maxI63 + 1 - p
		hi := ^uint64(0) - p
		d = rapid.Uint64Range(lo, hi).Draw(t, label+"d")
		now = rapid.Uint64Range(p, maxI63).Draw(t, label+"now")
	default:
		kind = "free"
		d = vx.U64().Draw(t, label+"d")
		now = rapid.Uint64Range(p, maxI63).Draw(t, label+"now")
	}
	return p, now, d, kind
}

func genC19Enf(t *rapid.T) c19Enf {
	var c c19Enf
	c.PT, c.Now, c.D, _ = genPlacement(t, "t", 0)
	c.PH, c.NH, c.BD, _ = genPlacement(t, "h", 1)
	if c.NH == 0 {
		c.NH = 1
	}
	// keep one side permissive half of the time so the other side's boundary decides
	switch rapid.IntRange(0, 3).Draw(t, "relax") {
	case 0:
		c.D = 0
	case 1:
		c.BD = 0
	}
	c.NonMember = rapid.Bool().Draw(t, "nonmember")
	return c
}

func modelDelaysPassed(c c19Enf) (timeOK, heightOK bool) {
	return c.D == 0 || sumLE(c.PT, c.D, c.Now), c.BD == 0 || sumLE(c.PH, c.BD, c.NH)
}

func runC19Enf(outer *testing.T) func(rapid.TB, c19Enf, *vx.Case) {
	return func(t rapid.TB, c c19Enf, rec *vx.Case) {
		e := getEnfWorld(outer)
		checkEnforce(t, e, c, rec)
	}
}

func checkEnforce(t rapid.TB, e *enfWorld, c c19Enf, rec *vx.Case) {
	if c.PT > c.Now || c.PH > c.NH || c.Now > maxI63 || c.NH > maxI63 || c.NH == 0 || c.PH == 0 {
		vx.Harnessf("generator broke processed<=now<=2^63-1: %+v", c)
	}
	w := e.w
	ctx, _ := w.Ctx(1).CacheContext()
	ctx = ctx.WithBlockTime(time.Unix(0, int64(c.Now)).UTC()).WithBlockHeight(int64(c.NH))
	ck := w.App(1).IBCKeeper.ClientKeeper
	store := ck.ClientStore(ctx, e.clientID)
	ibctm.SetProcessedTime(store, e.ph, c.PT)
	ibctm.SetProcessedHeight(store, e.ph, clienttypes.NewHeight(e.rev, c.PH))
	mod, err := ck.Route(ctx, e.clientID)
	if err != nil {
		vx.Harnessf("route: %v", err)
	}
	if uint64(ctx.BlockTime().UnixNano()) != c.Now || clienttypes.GetSelfHeight(ctx).RevisionHeight != c.NH {
		vx.Harnessf("context does not carry the generated time/height")
	}
	if c.NonMember {
		err = mod.VerifyNonMembership(ctx, e.clientID, e.ph, c.D, c.BD, e.nmProof, e.nmPath)
	} else {
		err = mod.VerifyMembership(ctx, e.clientID, e.ph, c.D, c.BD, e.memProof, e.memPath, e.memValue)
	}
	accepted := err == nil
	timeOK, heightOK := modelDelaysPassed(c)
	tOv, hOv := c.D != 0 && sumOverflows(c.PT, c.D), c.BD != 0 && sumOverflows(c.PH, c.BD)
	nearT := c.D != 0 && !tOv && near(c.PT+c.D, c.Now)
	nearH := c.BD != 0 && !hOv && near(c.PH+c.BD, c.NH)
	if accepted {
		rec.Add("accepted", 1)
		if !timeOK {
			sig := "delay-time-not-enforced"
			if tOv {
				sig = sigTimeWrap
			}
			if !vx.Violatef(t, rec, c19, sig, "proof accepted at block time %d but processedTime %d + delay %d = %s (math/big) has not passed", c.Now, c.PT, c.D, new(big.Int).Add(bigU(c.PT), bigU(c.D))) {
				return
			}
			rec.Add("known_"+sig, 1)
		}
		if !heightOK {
			sig := "delay-height-not-enforced"
			if hOv {
				sig = sigHeightWrap
			}
			if !vx.Violatef(t, rec, c19, sig, "proof accepted at height %d but processedHeight %d + blockDelay %d = %s (math/big) has not been reached", c.NH, c.PH, c.BD, new(big.Int).Add(bigU(c.PH), bigU(c.BD))) {
				return
			}
			rec.Add("known_"+sig, 1)
		}
	} else {
		rec.Add("rejected", 1)
		if timeOK && heightOK {
			// the proof, client and heights are valid (control in setup); only the delay check can reject:
			// both delays are inclusive, so at/after the boundary the proof must be accepted
			vx.Violatef(t, rec, c19, "delay-passed-but-rejected", "both delays passed (time %d >= %d+%d, height %d >= %d+%d) but verification failed: %v", c.Now, c.PT, c.D, c.NH, c.PH, c.BD, err)
		}
	}
	switch {
	case tOv || hOv:
		rec.Class("sum-overflows-2^64")
	case nearT || nearH:
		rec.Class("boundary+-2")
	case timeOK && heightOK:
		rec.Class("passed")
	default:
		rec.Class("not-passed")
	}
	if c.NonMember {
		rec.Class("non-membership")
	} else {
		rec.Class("membership")
	}
	if accepted {
		rec.Class("accepted")
	} else {
		rec.Class("rejected")
	}
	rec.NonTrivialIf(tOv || hOv || nearT || nearH || c.D >= two53 || c.BD >= two53)
}

func near(a, b uint64) bool { return a-b <= 2 || b-a <= 2 }

func TestC19Enforce(t *testing.T) {
	vx.Check(t, vx.Prop[c19Enf]{
		ID:        c19,
		Rule:      "07-tendermint VerifyMembership/VerifyNonMembership on a real client with a valid proof; processed time/height written with SetProcessedTime/Height, block time/height set on a cached context, (processed, now, delay) placed at valid-2..valid+2, far, sum>=2^63 and sum>=2^64; oracle: accepted => now>=processedTime+delay and height>=processedHeight+blockDelay in math/big, and (inclusive bounds) both passed => accepted; non-trivial = within +-2 of a boundary, a sum that overflows, or a delay >= 2^53",
		MinNTFrac: 0.4,
		Gen:       genC19Enf,
		Run:       runC19Enf(t),
	})
}

// ---- end to end through the connection keeper ----------------------------------------------

type c19E2E struct {
	PTBack uint64 // processed time = now - PTBack (ns)
	PHBack uint64 // processed height = current height - PHBack (clamped to >= 1)
	TKind  string // none | boundary | overflow | free
	TDelta int64  // boundary: delay = PTBack + TDelta
	X      uint64 // overflow: delay = 2^64 - processedTime + X
	Free   uint64 // free: delay
	PKind  string // fit | free | zero
	HDelta int64  // fit: p chosen so that ceil(delay/p) ~ PHBack + HDelta
	PFree  uint64
}

func genC19E2E(t *rapid.T) c19E2E {
	c := c19E2E{
		PTBack: rapid.Uint64Range(0, 3_600_000_000_000).Draw(t, "ptback"),
		PHBack: rapid.Uint64Range(0, 12).Draw(t, "phback"),
		TKind:  rapid.SampledFrom([]string{"none", "boundary", "boundary", "boundary", "overflow", "overflow", "free"}).Draw(t, "tkind"),
		TDelta: rapid.Int64Range(-2, 2).Draw(t, "tdelta"),
		X:      rapid.Uint64Range(0, 3_600_000_000_000).Draw(t, "x"),
		Free:   vx.U64().Draw(t, "free"),
		PKind:  rapid.SampledFrom([]string{"fit", "fit", "fit", "free", "zero"}).Draw(t, "pkind"),
		HDelta: rapid.Int64Range(-2, 2).Draw(t, "hdelta"),
		PFree:  vx.U64().Draw(t, "pfree"),
	}
	if rapid.Bool().Draw(t, "smallback") {
		c.PTBack = rapid.Uint64Range(0, 1000).Draw(t, "ptbacksmall")
	}
	return c
}

func runC19E2E(outer *testing.T) func(rapid.TB, c19E2E, *vx.Case) {
	return func(t rapid.TB, c c19E2E, rec *vx.Case) {
		e := getEnfWorld(outer)
		w := e.w
		ctx, _ := w.Ctx(1).CacheContext()
		now := uint64(ctx.BlockTime().UnixNano())
		nh := uint64(ctx.BlockHeight())
		if c.PTBack > now || nh < 2 {
			vx.Harnessf("world clock too small")
		}
		pt := now - c.PTBack
		ph := nh - min(c.PHBack, nh-1)
		var d uint64
		switch c.TKind {
		case "none":
		case "boundary":
			d = c.PTBack + uint64(c.TDelta)
			if c.TDelta < 0 && c.PTBack < uint64(-c.TDelta) {
				d = 0
			}
		case "overflow":
			d = (^uint64(0) - pt) + 1 + min(c.X, pt-1)
		default:
			d = c.Free
		}
		var p uint64
		switch c.PKind {
		case "zero":
		case "fit":
			k := int64(nh-ph) + c.HDelta
			if k < 1 {
				k = 1
			}
			p = d / uint64(k)
			if d%uint64(k) != 0 {
				p++
			}
			if p == 0 {
				p = 1
			}
		default:
			p = c.PFree
		}
		app := w.App(1)
		app.IBCKeeper.ConnectionKeeper.SetParams(ctx, connectiontypes.NewParams(p))
		conn, ok := app.IBCKeeper.ConnectionKeeper.GetConnection(ctx, e.connID)
		if !ok {
			vx.Harnessf("connection %s missing", e.connID)
		}
		conn.DelayPeriod = d
		store := app.IBCKeeper.ClientKeeper.ClientStore(ctx, e.clientID)
		ibctm.SetProcessedTime(store, e.ph, pt)
		ibctm.SetProcessedHeight(store, e.ph, clienttypes.NewHeight(e.rev, ph))
		p1 := e.pkt.P1
		err := app.IBCKeeper.ConnectionKeeper.VerifyPacketCommitment(ctx, conn, e.ph, e.memProof, p1.SourcePort, p1.SourceChannel, p1.Sequence, e.memValue)
		accepted := err == nil

		bd := modelBlockDelay(d, p)
		timeOK := d == 0 || sumLE(pt, d, now)
		heightOK := bd.Sign() == 0 || new(big.Int).Add(bigU(ph), bd).Cmp(bigU(nh)) <= 0
		tOv := d != 0 && sumOverflows(pt, d)
		hOv := new(big.Int).Add(bigU(ph), bd).BitLen() > 64
		if accepted {
			rec.Add("accepted", 1)
			if !timeOK || !heightOK {
				sig := "e2e-delay-not-enforced"
				switch {
				case !timeOK && tOv:
					sig = sigTimeWrap
				case !heightOK && hOv:
					sig = sigHeightWrap
				case !heightOK && (d >= two53 || p >= two53):
					sig = sigFloat
				}
				if vx.Violatef(t, rec, c19, sig, "VerifyPacketCommitment accepted at time %d height %d with connection delay %d, maxExpectedTimePerBlock %d (exact block delay %s), processed at time %d height %d: time passed=%v, blocks passed=%v", now, nh, d, p, bd, pt, ph, timeOK, heightOK) {
					rec.Add("known_"+sig, 1)
				}
			}
		} else {
			rec.Add("rejected", 1)
			if timeOK && heightOK && d < two53 && p < two53 {
				vx.Violatef(t, rec, c19, "delay-passed-but-rejected", "both delays passed (delay %d, p %d, block delay %s; processed %d/%d, now %d/%d) but VerifyPacketCommitment failed: %v", d, p, bd, pt, ph, now, nh, err)
			}
		}
		nearT := d != 0 && !tOv && near(pt+d, now)
		nearH := bd.IsUint64() && bd.Sign() != 0 && !hOv && near(ph+bd.Uint64(), nh)
		switch {
		case tOv:
			rec.Class("time-sum-overflows")
		case nearT && nearH:
			rec.Class("both-boundaries")
		case nearT:
			rec.Class("time-boundary")
		case nearH:
			rec.Class("height-boundary")
		default:
			rec.Class("far")
		}
		if accepted {
			rec.Class("accepted")
		} else {
			rec.Class("rejected")
		}
		rec.NonTrivialIf(tOv || nearT || nearH)
	}
}

func TestC19E2E(t *testing.T) {
	vx.Check(t, vx.Prop[c19E2E]{
		ID:        c19,
		Rule:      "ConnectionKeeper.VerifyPacketCommitment with a real commitment proof on a real tendermint client at the chain's own block time/height; processed time/height = now - back; connection delay placed at the time boundary +-2 or so that processedTime+delay >= 2^64; MaxExpectedTimePerBlock chosen so that the block delay lands at the height boundary +-2; oracle as TestC19Enforce with blockDelay = exact ceil; non-trivial = within +-2 of a boundary or overflowing sum",
		MinNTFrac: 0.4,
		Gen:       genC19E2E,
		Run:       runC19E2E(t),
	})
}

// ---- deterministic re-demonstration of the recorded root causes -------------------------------

type c19Known struct {
	Name  string
	Arith *c19Arith `json:",omitempty"`
	Enf   *c19Enf   `json:",omitempty"`
}

// Minimal inputs, one per root cause (see the report / known_findings proposals).
var c19KnownCases = []c19Known{
	// float64(2^53+1) == 2^53: one block too few with one nanosecond per block
	{Name: "float-2^53+1-over-1", Arith: &c19Arith{Delay: two53 + 1, P: 1}},
	// default MaxExpectedTimePerBlock (30 s): delay = 300240*30s + 1ns (~104.25 days) needs 300241 blocks, ibc-go computes 300240
	{Name: "float-default-30s", Arith: &c19Arith{Delay: 300240*30_000_000_000 + 1, P: 30_000_000_000}},
	// float64(2^64-1) == 2^64: conversion back to uint64 is out of range
	{Name: "float-max", Arith: &c19Arith{Delay: ^uint64(0), P: 1}},
	// processedTime 1 + delay 2^64-1 wraps to 0: accepted immediately
	{Name: "time-wrap", Enf: &c19Enf{PT: 1, PH: 1, Now: 1, NH: 1, D: ^uint64(0), BD: 0}},
	// processedHeight 1 + blockDelay 2^64-1 wraps to 0: accepted immediately
	{Name: "height-wrap", Enf: &c19Enf{PT: 0, PH: 1, Now: 0, NH: 1, D: 0, BD: ^uint64(0)}},
	// realistic processed time (2020) + delay just below 2^64 ns
	{Name: "time-wrap-realistic", Enf: &c19Enf{PT: 1_577_923_200_000_000_000, PH: 10, Now: 1_577_923_205_000_000_000, NH: 11, D: ^uint64(0) - 1_577_923_200_000_000_000 + 1, BD: 0}},
}

func TestC19Known(t *testing.T) {
	vx.Check(t, vx.Prop[c19Known]{
		ID:   c19,
		Rule: "fixed minimal inputs, one per root cause found on the pinned tree (float64 ceil; uint64 wrap of processedTime+delay; of processedHeight+blockDelay); every run re-checks them",
		Gen: func(t *rapid.T) c19Known {
			return c19KnownCases[rapid.IntRange(0, len(c19KnownCases)-1).Draw(t, "i")]
		},
		Run: func(tb rapid.TB, c c19Known, rec *vx.Case) {
			rec.Class("%s", c.Name)
			rec.NonTrivial()
			switch {
			case c.Arith != nil:
				checkArith(tb, getArithWorld(t), *c.Arith, rec)
			case c.Enf != nil:
				checkEnforce(tb, getEnfWorld(t), *c.Enf, rec)
			}
		},
	})
}
