package codec

import (
	"fmt"
	"math"
	"reflect"
	"sort"
	"strings"
	"sync"
	"time"

	"github.com/cosmos/gogoproto/proto"

	sdkmath "cosmossdk.io/math"

	"github.com/cosmos/cosmos-sdk/codec"
	codectypes "github.com/cosmos/cosmos-sdk/codec/types"
	sdk "github.com/cosmos/cosmos-sdk/types"

	clienttypes "github.com/cosmos/ibc-go/v11/modules/core/02-client/types"
	commitmenttypes "github.com/cosmos/ibc-go/v11/modules/core/23-commitment/types"
	ibctm "github.com/cosmos/ibc-go/v11/modules/light-clients/07-tendermint"
	ibctesting "github.com/cosmos/ibc-go/v11/testing"
	"github.com/cosmos/ibc-go/v11/testing/simapp"

	"github.com/cosmos/ibc-go/v11/modules/apps/callbacks/verifx/vx"
)

// Structure-aware construction of ibc-go messages from a byte tape. The tape is the whole
// randomness of a case: every decision of the filler consumes one byte (0 when the tape is
// exhausted), so a case replays and shrinks as plain data. Low byte values pick well-formed
// content for the field at hand (so that validation gets past its first branches), high
// values pick from hostile pools.

type env struct {
	cdc      codec.Codec
	registry codectypes.InterfaceRegistry
	msgs     []string // type URLs of sdk.Msg implementations registered by ibc-go modules
	others   []string // other registered ibc-go implementations that carry stateless validation
	all      []string
	group    map[string]string
}

var (
	envOnce sync.Once
	theEnv  *env
)

func getEnv() *env {
	envOnce.Do(func() {
		app, _ := ibctesting.SetupTestingApp()
		sa, ok := app.(*simapp.SimApp)
		if !ok {
			panic(vx.HarnessError{Msg: "testing app is not a SimApp"})
		}
		e := &env{cdc: sa.AppCodec(), registry: sa.InterfaceRegistry(), group: map[string]string{}}
		seen := map[string]bool{}
		for _, u := range e.registry.ListImplementations(sdk.MsgInterfaceProtoName) {
			if strings.HasPrefix(u, "/ibc.") && !seen[u] {
				seen[u] = true
				e.msgs = append(e.msgs, u)
			}
		}
		for _, iface := range e.registry.ListAllInterfaces() {
			// responses carry no validation; interchain accounts are genesis/account-store values, not
			// something a message's stateless validation ever reaches (outside the C47 statement)
			if iface == sdk.MsgInterfaceProtoName || iface == "cosmos.tx.v1beta1.MsgResponse" || iface == "cosmos.auth.v1beta1.GenesisAccount" || iface == "cosmos.auth.v1beta1.AccountI" {
				continue
			}
			for _, u := range e.registry.ListImplementations(iface) {
				if strings.HasPrefix(u, "/ibc.") && !seen[u] {
					seen[u] = true
					e.others = append(e.others, u)
				}
			}
		}
		sort.Strings(e.msgs)
		sort.Strings(e.others)
		e.all = append(append([]string{}, e.msgs...), e.others...)
		for _, u := range e.all {
			// "/ibc.core.channel.v2.MsgX" -> "core.channel.v2"
			parts := strings.Split(strings.TrimPrefix(u, "/ibc."), ".")
			e.group[u] = strings.Join(parts[:len(parts)-1], ".")
		}
		theEnv = e
	})
	return theEnv
}

func (e *env) newMsg(typeURL string) proto.Message {
	m, err := e.registry.Resolve(typeURL)
	if err != nil {
		panic(vx.HarnessError{Msg: "cannot resolve " + typeURL + ": " + err.Error()})
	}
	return m
}

type tape struct {
	b                   []byte
	i                   int
	valid, hostile, nil int
	anyCached, anyRaw   int
}

func (t *tape) next() byte {
	if t.i >= len(t.b) {
		t.i++
		return 0
	}
	v := t.b[t.i]
	t.i++
	return v
}

var (
	goodAddr = sdk.AccAddress([]byte("verifx-account-00001")).String()

	typInt      = reflect.TypeOf(sdkmath.Int{})
	typDec      = reflect.TypeOf(sdkmath.LegacyDec{})
	typTime     = reflect.TypeOf(time.Time{})
	typDuration = reflect.TypeOf(time.Duration(0))
	typAny      = reflect.TypeOf(codectypes.Any{})

	hostileStrings = []string{
		"", " ", "\t\n", "\xff\xfe", "\x00", strings.Repeat("a", 5000), "a/b", "/", "-", "a-", "😀", "../..", "channel-18446744073709551616", "channel--1", "channel-+1", "channel-0/",
		"07-tendermint-99999999999999999999", "07-tendermint-", "-0", "a-99999999999999999999", "chain-18446744073709551616", "chain-018", "18446744073709551616-1", "0-0", "1-", "é-1",
		"ibc/", "ibc/zz", "ibc/27394FB092D2ECCD56123C74F36E4C1F926001CEADA9CA97EA622B25F41E5EB2", "transfer/channel-0/", "transfer/channel-0/x/channel-1", "{", "{}", `{"a":{"b":`, "null", strings.Repeat("[", 3000),
		"cosmos1", "cosmos1qqqqqqqqqqqqqqqqqqqqqqqqqqqqqqqqnrql8a", strings.Repeat("9", 400), "+1", "1e9", "0x10", "NaN", "*", "%s%n", "connection-0,connection-1", strings.Repeat("a/", 2000),
	}
	hostileU64   = []uint64{math.MaxUint64, math.MaxUint64 - 1, 1 << 63, 1<<63 - 1, 1<<63 + 1, 1 << 32, 1<<32 - 1, 1 << 53, 1 << 31, 1<<31 - 1, 1_000_000_000, 18446744074}
	hostileBytes = [][]byte{nil, {}, {0}, {0xff}, make([]byte, 32), make([]byte, 33), make([]byte, 4096), []byte("{}"), []byte("null"), {0x0a, 0xff, 0xff, 0xff, 0xff, 0x0f}, []byte(`{"result":"AQ=="}`), []byte(`{"error":" "}`)}
)

// wellFormed returns content that is valid for a field of this name (and true), if the
// filler knows one.
func wellFormed(name string, k byte) (string, bool) {
	n := strings.ToLower(name)
	pick := func(xs ...string) (string, bool) { return xs[int(k)%len(xs)], true }
	switch {
	case strings.Contains(n, "signer"), strings.Contains(n, "sender"), strings.Contains(n, "authority"), strings.Contains(n, "owner"), strings.Contains(n, "creator"), strings.Contains(n, "relayer"), n == "address", n == "grantee", n == "granter":
		return pick(goodAddr)
	case strings.Contains(n, "receiver"):
		return pick(goodAddr, "0x000000000000000000000000000000000000dEaD")
	case strings.Contains(n, "port"):
		return pick("transfer", "icahost", "mock", "icacontroller-"+goodAddr)
	case strings.Contains(n, "channel") && !strings.Contains(n, "version"):
		return pick("channel-0", "channel-7", "07-tendermint-3")
	case strings.Contains(n, "client") && strings.Contains(n, "type"):
		return pick("07-tendermint", "06-solomachine", "09-localhost")
	case strings.Contains(n, "client"):
		return pick("07-tendermint-0", "06-solomachine-1", "10-attestations-2", "09-localhost")
	case strings.Contains(n, "connection"):
		return pick("connection-0", "connection-12")
	case strings.Contains(n, "chainid"):
		return pick("testchain-1", "cosmoshub-4", "nochainrevision")
	case strings.Contains(n, "denom"):
		return pick("uatom", "ibc/27394FB092D2ECCD56123C74F36E4C1F926001CEADA9CA97EA622B25F41E5EB2", "gamm/pool/1")
	case strings.Contains(n, "encoding"):
		return pick("application/json", "application/x-protobuf", "application/x-solidity-abi", "proto3", "proto3json", "")
	case strings.Contains(n, "version"):
		return pick("ics20-1", "ics27-1", `{"version":"ics27-1","controller_connection_id":"connection-0","host_connection_id":"connection-0","address":"","encoding":"proto3","tx_type":"sdk_multi_msg"}`, "1", "ics27-2")
	case strings.Contains(n, "memo"):
		return pick("", `{"forward":{"receiver":"a","port":"transfer","channel":"channel-0"}}`, `{"src_callback":{"address":"a","gas_limit":"1"}}`)
	case strings.Contains(n, "amount"):
		return pick("1", "100", "115792089237316195423570985008687907853269984665640564039457584007913129639935")
	case strings.Contains(n, "identifier"):
		return pick("1")
	case strings.Contains(n, "keyprefix"), strings.Contains(n, "upgradepath"), strings.Contains(n, "path"):
		return pick("ibc", "upgrade", "upgradedIBCState")
	case strings.Contains(n, "name"):
		return pick("upgrade-plan", "x")
	}
	return "", false
}

type filler struct {
	e        *env
	t        *tape
	maxDepth int
}

func (f *filler) str(name string) string {
	b := f.t.next()
	if b < 160 {
		if s, ok := wellFormed(name, b); ok {
			f.t.valid++
			return s
		}
		return []string{"a", "abc", "mock-version", "x1", "some text"}[int(b)%5]
	}
	f.t.hostile++
	return hostileStrings[int(b-160)*7%len(hostileStrings)]
}

func (f *filler) u64(name string) uint64 {
	b := f.t.next()
	if b < 160 {
		f.t.valid++
		return []uint64{1, 3, 2, 0, 10, 100, 5, 7}[b%8]
	}
	f.t.hostile++
	return hostileU64[int(b-160)%len(hostileU64)]
}

func (f *filler) bytes(name string) []byte {
	b := f.t.next()
	if b < 160 {
		f.t.valid++
		return [][]byte{{1, 2, 3}, []byte("proof"), {0x0a, 0x01, 0x61}, make([]byte, 32)}[b%4]
	}
	f.t.hostile++
	return append([]byte(nil), hostileBytes[int(b-160)%len(hostileBytes)]...)
}

// canned well-formed values for Any fields, overlaid with tape-driven corruption
func cannedFor(name string, k byte) proto.Message {
	cs := ibctm.NewClientState("testchain-1", ibctm.DefaultTrustLevel, time.Hour*24*14, time.Hour*24*21, time.Second*10, clienttypes.NewHeight(1, 10), commitmenttypes.GetSDKSpecs(), []string{"upgrade", "upgradedIBCState"})
	cons := ibctm.NewConsensusState(time.Unix(1700000000, 0).UTC(), commitmenttypes.NewMerkleRoot([]byte("apphash")), make([]byte, 32))
	n := strings.ToLower(name)
	switch {
	case strings.Contains(n, "consensus"):
		return cons
	case strings.Contains(n, "clientstate"):
		return cs
	}
	if k%2 == 0 {
		return cs
	}
	return cons
}

func (f *filler) fillAny(name string, depth int) *codectypes.Any {
	b := f.t.next()
	switch {
	case b < 96: // canned well-formed value with tape-driven corruption of some fields
		m := cannedFor(name, b)
		f.overlay(reflect.ValueOf(m).Elem(), depth+1)
		return f.pack(m)
	case b < 176: // a filled instance of any registered ibc-go implementation (maybe of the wrong interface)
		u := f.e.all[int(f.t.next())%len(f.e.all)]
		m := f.e.newMsg(u)
		if depth < f.maxDepth {
			f.fill(reflect.ValueOf(m).Elem(), "", depth+1)
		}
		return f.pack(m)
	case b < 192:
		f.t.nil++
		return nil
	case b < 208:
		f.t.anyRaw++
		return &codectypes.Any{}
	case b < 224: // registered type URL, garbage value, nothing cached
		f.t.anyRaw++
		return &codectypes.Any{TypeUrl: f.e.all[int(f.t.next())%len(f.e.all)], Value: f.bytes(name)}
	case b < 240:
		f.t.anyRaw++
		return &codectypes.Any{TypeUrl: f.str("typeurl"), Value: f.bytes(name)}
	default: // registered type URL, valid encoding, nothing cached (what plain proto.Unmarshal leaves behind)
		m := cannedFor(name, b)
		a := f.pack(m)
		if a == nil {
			return nil
		}
		f.t.anyRaw++
		return &codectypes.Any{TypeUrl: a.TypeUrl, Value: a.Value}
	}
}

func (f *filler) pack(m proto.Message) *codectypes.Any {
	var a *codectypes.Any
	panicked, _ := vx.Recover(func() {
		var err error
		a, err = codectypes.NewAnyWithValue(m)
		if err != nil {
			a = nil
		}
	})
	if panicked || a == nil {
		// the in-memory value cannot be encoded (harness-side): leave a bare type URL
		f.t.anyRaw++
		return &codectypes.Any{TypeUrl: "/" + proto.MessageName(m)}
	}
	f.t.anyCached++
	return a
}

// overlay keeps most of an existing well-formed value and replaces some fields.
func (f *filler) overlay(v reflect.Value, depth int) {
	if v.Kind() != reflect.Struct || v.Type() == typTime || v.Type() == typInt {
		return
	}
	for i := 0; i < v.NumField(); i++ {
		fv := v.Field(i)
		if !fv.CanSet() {
			continue
		}
		b := f.t.next()
		switch {
		case b < 176:
			if fv.Kind() == reflect.Struct {
				f.overlay(fv, depth+1)
			} else if fv.Kind() == reflect.Ptr && !fv.IsNil() && fv.Elem().Kind() == reflect.Struct && fv.Type().Elem() != typAny {
				f.overlay(fv.Elem(), depth+1)
			}
		default:
			f.fill(fv, v.Type().Field(i).Name, depth+1)
		}
	}
}

func (f *filler) fill(v reflect.Value, name string, depth int) {
	t := v.Type()
	switch t {
	case typInt:
		b := f.t.next()
		switch {
		case b < 128:
			f.t.valid++
			v.Set(reflect.ValueOf(sdkmath.NewInt(int64(b%5) + 1)))
		case b < 160:
			f.t.nil++ // the zero Int (nil big.Int) is what an absent field decodes to
		case b < 192:
			v.Set(reflect.ValueOf(sdkmath.NewInt(0)))
		case b < 224:
			v.Set(reflect.ValueOf(sdkmath.NewInt(-1)))
		default:
			v.Set(reflect.ValueOf(sdkmath.NewIntFromBigInt(sdkmath.NewUintFromString("115792089237316195423570985008687907853269984665640564039457584007913129639935").BigInt())))
		}
		return
	case typDec:
		b := f.t.next()
		switch {
		case b < 128:
			v.Set(reflect.ValueOf(sdkmath.LegacyNewDec(int64(b % 5))))
		case b < 192:
			f.t.nil++
		default:
			v.Set(reflect.ValueOf(sdkmath.LegacyNewDec(-1)))
		}
		return
	case typTime:
		b := f.t.next()
		switch {
		case b < 128:
			f.t.valid++
			v.Set(reflect.ValueOf(time.Unix(1700000000+int64(b), 0).UTC()))
		case b < 176:
		case b < 208:
			v.Set(reflect.ValueOf(time.Unix(-62135596801, 0).UTC()))
		case b < 232:
			v.Set(reflect.ValueOf(time.Unix(253402300800, 0).UTC()))
		default:
			v.Set(reflect.ValueOf(time.Unix(math.MaxInt64, 999999999)))
		}
		return
	case typDuration:
		b := f.t.next()
		switch {
		case b < 128:
			f.t.valid++
			v.SetInt(int64(time.Duration(b%20+1) * time.Hour))
		case b < 176:
			v.SetInt(0)
		case b < 208:
			v.SetInt(-1)
		case b < 232:
			v.SetInt(math.MaxInt64)
		default:
			v.SetInt(math.MinInt64)
		}
		return
	}
	switch v.Kind() {
	case reflect.String:
		v.SetString(f.str(name))
	case reflect.Bool:
		v.SetBool(f.t.next()%2 == 1)
	case reflect.Int32, reflect.Int64, reflect.Int:
		x := f.u64(name)
		if v.Kind() == reflect.Int32 {
			v.SetInt(int64(int32(x)))
		} else {
			v.SetInt(int64(x))
		}
	case reflect.Uint32, reflect.Uint64, reflect.Uint, reflect.Uint8:
		x := f.u64(name)
		switch v.Kind() {
		case reflect.Uint32:
			x = uint64(uint32(x))
		case reflect.Uint8:
			x = uint64(uint8(x))
		}
		v.SetUint(x)
	case reflect.Float32, reflect.Float64:
		v.SetFloat([]float64{0, 1, -1, math.Inf(1), math.NaN(), 1e300}[f.t.next()%6])
	case reflect.Slice:
		if t.Elem().Kind() == reflect.Uint8 {
			v.SetBytes(f.bytes(name))
			return
		}
		b := f.t.next()
		n := []int{1, 0, 2, 1, 3, 1, 2, 0}[b%8]
		if b == 255 {
			n = 40
		}
		if depth >= f.maxDepth {
			n = 0
		}
		if n == 0 {
			if b%16 >= 8 {
				v.Set(reflect.MakeSlice(t, 0, 0))
			}
			return
		}
		s := reflect.MakeSlice(t, n, n)
		for i := 0; i < n; i++ {
			el := s.Index(i)
			if el.Kind() == reflect.Ptr && el.Type().Elem() != typAny {
				// repeated message fields never decode to nil elements: always allocate
				el.Set(reflect.New(el.Type().Elem()))
				f.fill(el.Elem(), name, depth+1)
			} else {
				f.fill(el, name, depth+1)
			}
		}
		v.Set(s)
	case reflect.Array:
		for i := 0; i < v.Len(); i++ {
			f.fill(v.Index(i), name, depth+1)
		}
	case reflect.Ptr:
		if t.Elem() == typAny {
			a := f.fillAny(name, depth)
			if a != nil {
				v.Set(reflect.ValueOf(a))
			}
			return
		}
		b := f.t.next()
		if b%4 == 3 || depth >= f.maxDepth {
			f.t.nil++
			return
		}
		nv := reflect.New(t.Elem())
		f.fill(nv.Elem(), name, depth+1)
		v.Set(nv)
	case reflect.Struct:
		for i := 0; i < v.NumField(); i++ {
			fv := v.Field(i)
			if !fv.CanSet() {
				continue
			}
			if fv.Kind() == reflect.Interface {
				f.fillOneof(v, fv, depth)
				continue
			}
			f.fill(fv, t.Field(i).Name, depth+1)
		}
	case reflect.Map:
		b := f.t.next()
		if b%3 == 0 {
			return
		}
		m := reflect.MakeMap(t)
		for i := 0; i < int(b%3); i++ {
			k := reflect.New(t.Key()).Elem()
			f.fill(k, name, depth+1)
			el := reflect.New(t.Elem()).Elem()
			f.fill(el, name, depth+1)
			m.SetMapIndex(k, el)
		}
		v.Set(m)
	}
}

// fillOneof sets a oneof interface field of the struct to one of its generated wrappers.
func (f *filler) fillOneof(parent, field reflect.Value, depth int) {
	b := f.t.next()
	if b%4 == 3 || !parent.CanAddr() {
		f.t.nil++
		return
	}
	w, ok := parent.Addr().Interface().(interface{ XXX_OneofWrappers() []interface{} })
	if !ok {
		return
	}
	var cands []reflect.Type
	for _, x := range w.XXX_OneofWrappers() {
		if t := reflect.TypeOf(x); t.Implements(field.Type()) {
			cands = append(cands, t)
		}
	}
	if len(cands) == 0 {
		return
	}
	t := cands[int(b)%len(cands)]
	nv := reflect.New(t.Elem())
	f.fill(nv.Elem(), t.Elem().Name(), depth+1)
	field.Set(nv)
}

// build constructs the message of a case.
func buildMsg(typeURL string, tp []byte) (proto.Message, *tape) {
	e := getEnv()
	t := &tape{b: tp}
	f := &filler{e: e, t: t, maxDepth: 7}
	m := e.newMsg(typeURL)
	f.fill(reflect.ValueOf(m).Elem(), "", 0)
	return m, t
}

func dumpMsg(m proto.Message) string {
	var s string
	if panicked, _ := vx.Recover(func() { s = fmt.Sprintf("%+v", m) }); panicked {
		return fmt.Sprintf("<%T: cannot be printed>", m)
	}
	if len(s) > 1500 {
		s = s[:1500] + "...(truncated)"
	}
	return s
}

// stateless validation entry points a registered type may have
func validators(m any) map[string]func() error {
	out := map[string]func() error{}
	if v, ok := m.(interface{ ValidateBasic() error }); ok {
		out["ValidateBasic"] = v.ValidateBasic
	}
	if v, ok := m.(interface{ Validate() error }); ok {
		out["Validate"] = v.Validate
	}
	return out
}

func typeName(m any) string {
	return strings.TrimPrefix(fmt.Sprintf("%T", m), "*")
}
