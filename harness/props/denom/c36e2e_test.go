package denom

import (
	"math/big"
	"testing"

	sdkmath "cosmossdk.io/math"

	sdk "github.com/cosmos/cosmos-sdk/types"
	"github.com/cosmos/cosmos-sdk/x/authz"

	"pgregory.net/rapid"

	transfertypes "github.com/cosmos/ibc-go/v11/modules/apps/transfer/types"
	channeltypes "github.com/cosmos/ibc-go/v11/modules/core/04-channel/types"
	ibctesting "github.com/cosmos/ibc-go/v11/testing"

	"github.com/cosmos/ibc-go/v11/modules/apps/callbacks/verifx/sim"
	"github.com/cosmos/ibc-go/v11/modules/apps/callbacks/verifx/vx"
)

// C36 (end-to-end part): a real authz.MsgGrant of a TransferAuthorization followed by
// authz.MsgExec transactions of the grantee carrying 1-2 MsgTransfer of the granter, on a world
// with two open transfer channels. Observed at the bank: what the channel escrow accounts gained.
//   * sum moved per (channel, denom) <= granted (bounded limits);
//   * every packet sent went over an allocated channel, to an allow-listed receiver, with an
//     allowed memo;
//   * a committed MsgExec implies the model accepts each of its transfers in order (safety only:
//     failed transactions are never violations - funds, channels etc. may be the reason).

type c36E2ECase struct {
	Allocs []c36Alloc `json:"allocs"` // channels are placeholders L0 | L1 | X (not open)
	Reqs   []c36Req   `json:"reqs"`
	Batch  []int      `json:"batch"` // sizes (1|2) of consecutive MsgExec batches
	Funds  string     `json:"funds"` // minted to the granter per denom
}

var (
	e2eChannels = []string{"L0", "L1", "L0", "L1", "X"}
	e2ePorts    = []string{"transfer"}
	e2eDenoms   = []string{"uatom", "gamm/pool/1", "ab/c"}
)

func genC36E2E(t *rapid.T) c36E2ECase {
	allocs := genC36Allocs(t, e2ePorts, e2eChannels, e2eDenoms, 2)
	c := c36E2ECase{Allocs: allocs, Reqs: genC36Reqs(t, allocs, e2ePorts, e2eChannels, e2eDenoms, 7)}
	for i := 0; i < len(c.Reqs); i++ {
		c.Batch = append(c.Batch, rapid.SampledFrom([]int{1, 1, 1, 1, 2}).Draw(t, "batch"))
	}
	c.Funds = rapid.SampledFrom([]string{"1000000000000000000000000000000", "1000000000000000000000000000000", "1000000000000000000000000000000", "1500"}).Draw(t, "funds")
	return c
}

func (g *mGrant) clone() *mGrant {
	out := &mGrant{}
	for _, a := range g.allocs {
		b := &mAlloc{port: a.port, ch: a.ch, rem: map[string]*big.Int{}, unb: map[string]bool{}, allow: a.allow, memos: a.memos}
		for d, v := range a.rem {
			b.rem[d] = new(big.Int).Set(v)
		}
		for d := range a.unb {
			b.unb[d] = true
		}
		out.allocs = append(out.allocs, b)
	}
	return out
}

func runC36E2E(outer *testing.T) func(t rapid.TB, c c36E2ECase, rec *vx.Case) {
	return func(t rapid.TB, c c36E2ECase, rec *vx.Case) {
		const id = "C36"
		w := sim.NewWorld(outer, 2, nil)
		l0 := addTransferLink(w, 0, 1, 0, 2)
		l1 := addTransferLink(w, 0, 1, 1, 0)
		chName := map[string]string{"L0": l0.ID(0), "L1": l1.ID(0), "X": "channel-77"}
		receivers := []string{w.Addr(1, acctHolder).String(), w.Addr(1, acctReceiver).String(), "cosmos1notanaddressonb", "0x7a69"}

		allocs := make([]c36Alloc, len(c.Allocs))
		for i, a := range c.Allocs {
			a.Channel = chName[a.Channel]
			allocs[i] = a
		}
		granter, grantee := w.Addr(0, acctSender), w.Addr(0, acctGrantee)
		funds := mustInt(c.Funds)
		var coins sdk.Coins
		for _, d := range e2eDenoms {
			coins = coins.Add(sdk.NewCoin(d, funds))
		}
		mintTo(w, 0, granter, coins)

		auth := buildAuthorization(allocs, receivers)
		grantMsg, err := authz.NewMsgGrant(granter, grantee, auth, nil)
		if err != nil {
			vx.Harnessf("NewMsgGrant: %v", err)
		}
		if res := w.Deliver(0, acctSender, grantMsg); !res.OK {
			vx.Harnessf("MsgGrant failed: %v %s", res.Err, logOf(res))
		}
		original := newModel(allocs, receivers)
		model := original.clone()

		escrowOf := func(ch string) sdk.AccAddress { return transfertypes.GetEscrowAddress(transfertypes.PortID, ch) }
		openChans := []string{l0.ID(0), l1.ID(0)}
		escrowSnap := func() map[string]sdkmath.Int {
			m := map[string]sdkmath.Int{}
			for _, ch := range openChans {
				for d, a := range balances(w, 0, escrowOf(ch)) {
					m[ch+"|"+d] = a
				}
			}
			return m
		}
		moved := map[string]*big.Int{}
		granted := map[string]*big.Int{}
		for _, a := range original.allocs {
			for d, v := range a.rem {
				granted[a.ch+"|"+d] = v
			}
		}

		var okTxs, failedTxs, packets, sentinels int
		ri := 0
		for bi := 0; ri < len(c.Reqs); bi++ {
			size := 1
			if bi < len(c.Batch) {
				size = c.Batch[bi]
			}
			if ri+size > len(c.Reqs) {
				size = len(c.Reqs) - ri
			}
			trial := model.clone()
			var msgs []sdk.Msg
			var whys []string
			for _, r := range c.Reqs[ri : ri+size] {
				ch := chName[r.Channel]
				rem, isUnb := trial.remaining(r.Port, ch, r.Denom)
				amt := resolveAmount(r, rem, isUnb)
				if amt.Cmp(maxU256) == 0 {
					sentinels++
				}
				receiver := receivers[r.Receiver]
				msgs = append(msgs, transfertypes.NewMsgTransfer(r.Port, ch, sdk.NewCoin(r.Denom, sdkmath.NewIntFromBigInt(amt)), granter.String(), receiver, farTimeout(w, 1), 0, r.Memo))
				why := trial.verdict(r.Port, ch, r.Denom, amt, receiver, r.Memo)
				whys = append(whys, why)
				if why == "" {
					trial.apply(r.Port, ch, r.Denom, amt)
				}
			}
			ri += size
			exec := authz.NewMsgExec(grantee, msgs)
			before := escrowSnap()
			res := w.Deliver(0, acctGrantee, &exec)
			after := escrowSnap()
			if !res.OK {
				failedTxs++
				allOK := true
				for _, why := range whys {
					allOK = allOK && why == ""
				}
				if allOK {
					rec.Add("model_ok_exec_failed", 1) // converse (funds, unopened channel, ...): measured only
				}
				for k, v := range after {
					if b, ok := before[k]; !ok || !b.Equal(v) {
						vx.Violatef(t, rec, id, "failed-exec-moved-funds", "a failed MsgExec changed escrow %s: %v -> %s", k, before[k], v)
						return
					}
				}
				continue
			}
			okTxs++
			for i, why := range whys {
				if why != "" {
					vx.Violatef(t, rec, id, "e2e-accept-"+why, "MsgExec committed although transfer %d of the batch (%v) is forbidden by the model (%s); grant: %s", i, msgs[i], why, model.render())
					return
				}
			}
			model = trial
			// what actually moved
			for k, v := range after {
				b, ok := before[k]
				if !ok {
					b = sdkmath.ZeroInt()
				}
				if v.GT(b) {
					if moved[k] == nil {
						moved[k] = new(big.Int)
					}
					moved[k].Add(moved[k], v.Sub(b).BigInt())
				}
			}
			for k, m := range moved {
				g, bounded := granted[k]
				unb := false
				for _, a := range original.allocs {
					for d := range a.unb {
						if a.ch+"|"+d == k {
							unb = true
						}
					}
				}
				if unb {
					continue
				}
				if !bounded || m.Cmp(g) > 0 {
					vx.Violatef(t, rec, id, "e2e-moved-more-than-granted", "escrow %s gained %s in total under a grant of %v", k, m, g)
					return
				}
			}
			pkts, _ := ibctesting.ParseIBCV1Packets(channeltypes.EventTypeSendPacket, res.Events)
			for _, p := range pkts {
				packets++
				var d transfertypes.FungibleTokenPacketData
				if err := transfertypes.ModuleCdc.UnmarshalJSON(p.Data, &d); err != nil {
					vx.Harnessf("cannot decode sent packet data: %v", err)
				}
				a := original.find(p.SourcePort, p.SourceChannel)
				if a == nil {
					vx.Violatef(t, rec, id, "e2e-unallocated-channel", "a packet left over %s/%s which the grant does not allocate", p.SourcePort, p.SourceChannel)
					return
				}
				if why := original.verdict(p.SourcePort, p.SourceChannel, d.Denom, new(big.Int), d.Receiver, d.Memo); why == "receiver-not-allowed" || why == "memo-not-allowed" {
					vx.Violatef(t, rec, id, "e2e-"+why, "packet to %q with memo %q left over %s under grant %s", d.Receiver, d.Memo, p.SourceChannel, original.render())
					return
				}
			}
		}
		rec.Add("exec_ok", int64(okTxs))
		rec.Add("exec_failed", int64(failedTxs))
		rec.Add("packets_sent", int64(packets))
		rec.Add("sentinel_requests", int64(sentinels))
		exhausted := len(model.allocs) < len(original.allocs)
		for _, a := range model.allocs {
			if o := original.find(a.port, a.ch); o != nil && len(a.rem) < len(o.rem) {
				exhausted = true
			}
		}
		if exhausted {
			rec.Class("limit-exhausted")
		}
		if sentinels > 0 {
			rec.Class("sentinel-amount")
		}
		if okTxs == 0 {
			rec.Class("nothing-committed")
		}
		rec.NonTrivialIf(okTxs > 0 && (exhausted || sentinels > 0))
	}
}

func TestC36E2E(t *testing.T) {
	vx.Check(t, vx.Prop[c36E2ECase]{
		ID: "C36",
		Rule: "real MsgGrant(TransferAuthorization of 1-2 allocations over two open channels and one unopened) then 1-7 MsgTransfer of the granter packed in MsgExec batches of 1-2 by the grantee; " +
			"amounts aimed at the remaining limit / sentinel; granter funded with 1500 or 10^30 per denom; non-trivial = a committed MsgExec and (a limit exhausted or a sentinel request); distinct by full case",
		MinNTFrac: 0.2,
		Gen:       genC36E2E,
		Run:       runC36E2E(t),
	})
}
