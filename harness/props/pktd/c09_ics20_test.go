package pktd

import (
	"fmt"
	"strings"
	"testing"

	"pgregory.net/rapid"

	sdkmath "cosmossdk.io/math"

	sdk "github.com/cosmos/cosmos-sdk/types"
	authtypes "github.com/cosmos/cosmos-sdk/x/auth/types"

	ratelimitkeeper "github.com/cosmos/ibc-go/v11/modules/apps/rate-limiting/keeper"
	ratelimittypes "github.com/cosmos/ibc-go/v11/modules/apps/rate-limiting/types"
	transfertypes "github.com/cosmos/ibc-go/v11/modules/apps/transfer/types"
	clienttypes "github.com/cosmos/ibc-go/v11/modules/core/02-client/types"
	channeltypes "github.com/cosmos/ibc-go/v11/modules/core/04-channel/types"
	channeltypesv2 "github.com/cosmos/ibc-go/v11/modules/core/04-channel/v2/types"
	host "github.com/cosmos/ibc-go/v11/modules/core/24-host"
	"github.com/cosmos/ibc-go/v11/modules/core/exported"
	ibctesting "github.com/cosmos/ibc-go/v11/testing"

	"github.com/cosmos/ibc-go/v11/modules/apps/callbacks/verifx/sim"
	"github.com/cosmos/ibc-go/v11/modules/apps/callbacks/verifx/vx"
)

// C09 on the REAL ICS-20 stack of the test app (rate-limit -> packet-forward -> transfer,
// unmodified): generated transfers in both directions over one transfer channel, failing
// for natural reasons. An error acknowledgement must leave bank, transfer, rate-limit and
// PFM state exactly as before while the receipt and the (committed) error acknowledgement
// are written; a success acknowledgement must have credited the receiver.

type c09tOp struct {
	D     int    `json:"d"`               // 0: chain A -> B, 1: B -> A
	Denom string `json:"denom"`           // native | voucher (a voucher the sender holds, else native) | forged (unwinding voucher exceeding the escrow)
	Amt   int64  `json:"amt"`             // amount (forged: escrow balance + amt)
	Recv  string `json:"recv"`            // ok | bad (not bech32) | blocked (module account)
	Off   bool   `json:"off,omitempty"`   // receiving is disabled by params on the destination for this receive
	Memo  string `json:"memo,omitempty"`  // "" | pfm-missing (forward over a channel that does not exist) | junk
	Via   string `json:"via"`             // msg (MsgTransfer) | direct (crafted packet data sent from the transfer port by keeper call)
	RL    string `json:"rl,omitempty"`    // "" | tight (1 %) | loose (100 %): add a receive rate limit for the incoming denom first (if it has supply)
	Relay bool   `json:"relay,omitempty"` // relay the acknowledgement back afterwards (keeps source-side state moving)
}

var debugC09t = false

type c09tCase struct {
	Ops []c09tOp `json:"ops"`
}

func genC09t(t *rapid.T) c09tCase {
	var c c09tCase
	n := rapid.IntRange(3, 8).Draw(t, "nops")
	for i := 0; i < n; i++ {
		op := c09tOp{
			D:     rapid.IntRange(0, 1).Draw(t, "dir"),
			Denom: rapid.SampledFrom([]string{"native", "native", "voucher", "voucher", "forged"}).Draw(t, "denom"),
			Amt:   int64(rapid.IntRange(1, 1000).Draw(t, "amt")),
			Recv:  rapid.SampledFrom([]string{"ok", "ok", "ok", "ok", "bad", "blocked"}).Draw(t, "recv"),
			Off:   rapid.IntRange(0, 7).Draw(t, "off") == 0,
			Memo:  rapid.SampledFrom([]string{"", "", "", "pfm-missing", "pfm-missing", "junk"}).Draw(t, "memo"),
			Via:   rapid.SampledFrom([]string{"msg", "direct"}).Draw(t, "via"),
			RL:    rapid.SampledFrom([]string{"", "", "loose", "loose", "tight"}).Draw(t, "rl"),
			Relay: rapid.Bool().Draw(t, "relay"),
		}
		if i == 0 && rapid.Bool().Draw(t, "seedVoucher") {
			// make vouchers exist early so that later ops can unwind and rate-limit them
			op = c09tOp{D: op.D, Denom: "native", Amt: op.Amt + 100, Recv: "ok", Via: "msg", Relay: true}
		}
		c.Ops = append(c.Ops, op)
	}
	return c
}

func runC09t(outer *testing.T) func(t rapid.TB, c c09tCase, rec *vx.Case) {
	return func(t rapid.TB, c c09tCase, rec *vx.Case) {
		const id = "C09"
		w := sim.NewWorld(outer, 2, nil)
		var path *ibctesting.Path
		sim.Guard("transfer path setup", func() {
			path = ibctesting.NewTransferPath(w.Chains[0], w.Chains[1])
			path.Setup()
		})
		l := &sim.Link{Idx: len(w.Links), Kind: sim.V1Unordered, Chain: [2]int{0, 1}, Path: path}
		w.Links = append(w.Links, l)

		const senderIdx, recvIdx, relayer = 1, 1, 0
		blocked := authtypes.NewModuleAddress("distribution").String()
		errAcks, okAcks, deep := 0, 0, 0
		reasons := map[string]bool{}

		for i, op := range c.Ops {
			w.StepNo = i
			dir := ((op.D % 2) + 2) % 2
			sc, dc := l.Chain[dir], l.Chain[1-dir]
			srcChan, dstChan := l.ID(dir), l.ID(1-dir)
			sender := w.Addr(sc, senderIdx)
			amt := op.Amt
			if amt < 1 {
				amt = 1
			}

			// ---- what is sent
			fullPath, coinDenom := bankDenom, bankDenom
			kind := op.Denom
			if kind == "voucher" {
				kind = "native"
				for _, coin := range w.App(sc).BankKeeper.GetAllBalances(w.Ctx(sc), sender) {
					if !strings.HasPrefix(coin.Denom, "ibc/") || !coin.Amount.IsPositive() {
						continue
					}
					hash, err := transfertypes.ParseHexHash(strings.TrimPrefix(coin.Denom, "ibc/"))
					if err != nil {
						continue
					}
					d, found := w.App(sc).TransferKeeper.GetDenom(w.Ctx(sc), hash)
					if !found {
						continue
					}
					kind, fullPath, coinDenom = "voucher", d.Path(), coin.Denom
					if coin.Amount.LT(sdkmath.NewInt(amt)) {
						amt = coin.Amount.Int64()
					}
					break
				}
			}
			via := op.Via
			if kind == "forged" {
				// claims to return `ufoo` that the destination escrowed for this channel, for more than the escrow holds
				escrow := w.Balance(dc, transfertypes.GetEscrowAddress(transfertypes.PortID, dstChan), bankDenom).Amount
				if !escrow.IsInt64() {
					vx.Harnessf("C09t: escrow too large")
				}
				fullPath = fmt.Sprintf("%s/%s/%s", transfertypes.PortID, srcChan, bankDenom)
				amt = escrow.Int64() + amt
				via = "direct"
			}
			receiver := w.Addr(dc, recvIdx).String()
			switch op.Recv {
			case "bad":
				receiver = "not-a-bech32-address"
			case "blocked":
				receiver = blocked
			}
			memo := ""
			switch op.Memo {
			case "pfm-missing":
				memo = fmt.Sprintf(`{"forward":{"receiver":"%s","port":"transfer","channel":"channel-77"}}`, w.Addr(sc, 3).String())
			case "junk":
				memo = "hello"
			}
			th := clienttypes.NewHeight(clienttypes.ParseChainID(w.Chains[dc].ChainID), uint64(w.Height(dc)+1000))

			// ---- send
			var pk *sim.Pkt
			if via == "msg" {
				msg := transfertypes.NewMsgTransfer(transfertypes.PortID, srcChan, sdk.NewCoin(coinDenom, sdkmath.NewInt(amt)), sender.String(), receiver, th, 0, memo)
				res := w.Deliver(sc, senderIdx, msg)
				if !res.OK {
					rec.Add("sends_refused", 1)
					continue
				}
				p1, err := ibctesting.ParseV1PacketFromEvents(res.Events)
				if err != nil {
					vx.Harnessf("C09t: no packet in MsgTransfer events: %v", err)
				}
				pk = &sim.Pkt{Idx: len(w.Pkts), Link: l.Idx, Dir: dir, SrcHeight: res.Height, P1: p1}
				w.Pkts = append(w.Pkts, pk)
			} else {
				data := transfertypes.NewFungibleTokenPacketData(fullPath, fmt.Sprint(amt), sender.String(), receiver, memo)
				var err error
				pk, err = w.SendV1(l, dir, th, 0, data.GetBytes())
				if err != nil {
					rec.Add("sends_refused", 1)
					continue
				}
			}

			// ---- destination-side preparation
			dapp := w.App(dc)
			if op.Off {
				dapp.TransferKeeper.SetParams(w.Ctx(dc), transfertypes.NewParams(true, false))
				w.Block(dc, 1)
			}
			limited, rlAccepts := false, true
			if info, err := ratelimitkeeper.ParsePacketInfo(pk.P1, ratelimittypes.PACKET_RECV); err == nil {
				if op.RL != "" && w.Supply(dc, info.Denom).Amount.IsPositive() {
					if _, found := dapp.RateLimitKeeper.GetRateLimit(w.Ctx(dc), info.Denom, dstChan); !found {
						pct := int64(100)
						if op.RL == "tight" {
							pct = 1
						}
						cctx, write := w.Ctx(dc).CacheContext()
						if err := dapp.RateLimitKeeper.AddRateLimit(cctx, &ratelimittypes.MsgAddRateLimit{Denom: info.Denom, ChannelOrClientId: dstChan,
							MaxPercentSend: sdkmath.NewInt(100), MaxPercentRecv: sdkmath.NewInt(pct), DurationHours: 24}); err == nil {
							write()
							w.Block(dc, 1)
							rec.Add("rate_limits_added", 1)
						}
					}
				}
				var rl ratelimittypes.RateLimit
				if rl, limited = dapp.RateLimitKeeper.GetRateLimit(w.Ctx(dc), info.Denom, dstChan); limited && !rl.Flow.ChannelValue.IsZero() {
					net := rl.Flow.Inflow.Sub(rl.Flow.Outflow).Add(info.Amount)
					rlAccepts = !net.GT(rl.Flow.ChannelValue.Mul(rl.Quota.MaxPercentRecv).Quo(sdkmath.NewInt(100)))
				}
			}

			// unwinding a held voucher whose backing escrow on the destination is short (the voucher came
			// from a crafted, un-escrowed send): the natural "insufficient escrow" failure
			shortEscrow := false
			if d := transfertypes.ExtractDenomFromPath(fullPath); kind == "voucher" && d.HasPrefix(transfertypes.PortID, srcChan) {
				d.Trace = d.Trace[1:]
				have := w.Balance(dc, transfertypes.GetEscrowAddress(transfertypes.PortID, dstChan), d.IBCDenom()).Amount
				shortEscrow = have.LT(sdkmath.NewInt(amt))
			}

			// ---- receive
			h := w.FreshHeight(l, 1-dir, relayer)
			msg := w.BuildRecv(pk, h, relayer)
			pre := snapCtx(w, dc, w.Ctx(dc))
			res := w.Deliver(dc, relayer, msg)
			post := snapCtx(w, dc, w.Ctx(dc))
			if op.Off {
				dapp.TransferKeeper.SetParams(w.Ctx(dc), transfertypes.NewParams(true, true))
				w.Block(dc, 1)
			}

			expectFail, reason := false, "none"
			switch {
			case limited && !rlAccepts:
				expectFail, reason = true, "rate-limit-exceeded"
			case op.Off:
				expectFail, reason = true, "receive-disabled"
			case op.Memo == "pfm-missing" && kind == "forged":
				expectFail, reason = true, "forged-escrow(pfm)"
			case op.Memo == "pfm-missing":
				expectFail, reason = true, "pfm-forward-missing-channel"
			case op.Recv == "bad":
				expectFail, reason = true, "bad-receiver"
			case op.Recv == "blocked":
				expectFail, reason = true, "blocked-receiver"
			case kind == "forged":
				expectFail, reason = true, "forged-escrow"
			case shortEscrow:
				expectFail, reason = true, "unwind-insufficient-escrow"
			}
			where := fmt.Sprintf("op %d (%s %s amt %d recv=%s off=%v memo=%s via=%s limited=%v)", i, kind, fullPath, amt, op.Recv, op.Off, op.Memo, via, limited)

			if !res.OK {
				rec.Add("recv_tx_failed", 1)
				rec.Class("recv-tx-failed")
				continue
			}
			ackBz, err := ibctesting.ParseAckFromEvents(res.Events)
			if err != nil {
				// no acknowledgement written: asynchronous (PFM is forwarding); nothing to judge here
				rec.Add("async_recvs", 1)
				rec.Class("async")
				continue
			}
			var ack channeltypes.Acknowledgement
			if err := transfertypes.ModuleCdc.UnmarshalJSON(ackBz, &ack); err != nil {
				vx.Harnessf("C09t: acknowledgement in events is not an ICS-4 acknowledgement: %v", err)
			}
			w.NoteAck(pk, res)
			if !ack.Success() {
				errAcks++
				if !expectFail {
					reason = "unmodelled"
					if debugC09t {
						fmt.Printf("UNMODELLED %s ack=%s\n", where, ackBz)
					}
					rec.Add("unexplained_error_acks", 1)
				}
				reasons[reason] = true
				rec.Class("err:%s", reason)
				if limited {
					rec.Class("err-with-rate-limit-active")
				}
				// the stack wrote before failing: PFM received the funds before the forward failed, or the
				// rate limiter recorded the inflow before the layers below refused the packet
				wroteFirst := reason == "pfm-forward-missing-channel" || (limited && rlAccepts && expectFail)
				if wroteFirst {
					deep++
					rec.Class("err-after-stack-wrote")
				}
				judgeErrRecv(t, rec, id, pre, post, false, pk.P1, ackBz, where)
			} else {
				okAcks++
				rec.Class("ok:%s", kind)
				if expectFail {
					rec.Add("expected_failure_but_success", 1)
					rec.Class("expected-failure-but-success:%s", reason)
				}
				// success: the receiver must have been credited with exactly amt of one denom
				credited := false
				prefix := "bal/" + receiver + "/"
				for k, v := range post["bank"] {
					if !strings.HasPrefix(k, prefix) {
						continue
					}
					after, ok1 := sdkmath.NewIntFromString(v)
					before := sdkmath.ZeroInt()
					if pv, ok := pre["bank"][k]; ok {
						before, _ = sdkmath.NewIntFromString(pv)
					}
					if ok1 && after.Sub(before).Equal(sdkmath.NewInt(amt)) {
						credited = true
					}
				}
				if !credited {
					vx.Violatef(t, rec, id, "success-effects-not-persisted", "%s: success acknowledgement but the receiver was not credited with %d; bank diff %s", where, amt, short(sim.Diff(only(pre, "bank"), only(post, "bank"))))
				}
				if post[exported.StoreKey][string(host.PacketAcknowledgementKey(pk.P1.DestinationPort, pk.P1.DestinationChannel, pk.P1.Sequence))] != string(channeltypes.CommitAcknowledgement(ackBz)) {
					rec.Add("success_ack_commitment_mismatch", 1)
				}
			}

			if op.Relay && pk.Ack1 != nil {
				hh := w.FreshHeight(l, dir, relayer)
				_ = w.Deliver(sc, relayer, w.BuildAck(pk, pk.Ack1, channeltypesv2.Acknowledgement{}, hh, relayer))
			}
		}
		rec.Add("error_acks", int64(errAcks))
		rec.Add("success_acks", int64(okAcks))
		rec.Add("error_acks_after_stack_wrote", int64(deep))
		rec.NonTrivialIf(errAcks >= 1 && (deep >= 1 || len(reasons) >= 2))
	}
}

func TestC09ICS20(t *testing.T) {
	vx.Check(t, vx.Prop[c09tCase]{
		ID:        "C09",
		Rule:      "3..8 ICS-20 transfers in both directions over one transfer channel through the unmodified rate-limit/PFM/transfer stack: native, held-voucher (unwinding) or forged-voucher denominations; ok / non-bech32 / blocked receiver; receive disabled by params; PFM memo forwarding over a missing channel; optional receive rate limit on the incoming denom; sent by MsgTransfer or as crafted packet data by keeper call; non-trivial = >= 1 error-acknowledged receive and (one where the stack wrote before failing [PFM minted/unescrowed before the forward failed, or a rate-limit flow was recorded before transfer failed] or >= 2 distinct failure reasons); distinct by full case",
		MinNTFrac: 0.3,
		Gen:       genC09t,
		Run:       runC09t(t),
	})
}
