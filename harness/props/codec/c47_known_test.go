package codec

import (
	"reflect"
	"strconv"
	"strings"

	"github.com/cosmos/gogoproto/proto"

	sdkmath "cosmossdk.io/math"

	codectypes "github.com/cosmos/cosmos-sdk/codec/types"
	sdk "github.com/cosmos/cosmos-sdk/types"

	cmtproto "github.com/cometbft/cometbft/proto/tendermint/types"

	ratelimittypes "github.com/cosmos/ibc-go/v11/modules/apps/rate-limiting/types"
	transfertypes "github.com/cosmos/ibc-go/v11/modules/apps/transfer/types"
	clienttypes "github.com/cosmos/ibc-go/v11/modules/core/02-client/types"
	solomachine "github.com/cosmos/ibc-go/v11/modules/light-clients/06-solomachine"
	ibctm "github.com/cosmos/ibc-go/v11/modules/light-clients/07-tendermint"
)

// Panics found on the unchanged tree (candidates for known_findings.json, property C47).
// For each: the structural signature produced by panicSite, a deterministic minimal input
// (c47Demos) that re-demonstrates it through vx.Violatef on every run, and a repair that
// removes exactly that shape from generated messages (counted as excluded_known) so that
// the search continues behind it.
const (
	sigTMMisbehaviour   = "panic:nil-deref@light-clients/07-tendermint.Misbehaviour.ValidateBasic"
	sigAddRateLimit     = "panic:nil-deref@apps/rate-limiting/types.(*MsgAddRateLimit).ValidateBasic"
	sigUpdateRateLimit  = "panic:nil-deref@apps/rate-limiting/types.(*MsgUpdateRateLimit).ValidateBasic"
	sigSoloClientUnpack = "panic:nil-deref@light-clients/06-solomachine.ClientState.UnpackInterfaces"
	sigSoloMisbehaviour = "panic:nil-deref@light-clients/06-solomachine.Misbehaviour.ValidateBasic"
	sigTransferAuthz    = "panic:nil-deref@apps/transfer/types.(*TransferAuthorization).ValidateBasic"
	sigCreateClient     = "panic:nil-deref@core/02-client/types.MsgCreateClient.ValidateBasic"
	sigParseChainID     = "panic:explicit@core/02-client/types.ParseChainID"
)

type c47Demo struct {
	Sig  string
	What string
	Run  func(out *findings)
}

var c47Demos = []c47Demo{
	{sigTMMisbehaviour, "07-tendermint Misbehaviour whose headers carry no signed_header", func(out *findings) {
		h := func() *ibctm.Header {
			return &ibctm.Header{TrustedHeight: clienttypes.NewHeight(0, 1), TrustedValidators: &cmtproto.ValidatorSet{}}
		}
		m := ibctm.Misbehaviour{ClientId: "07-tendermint-0", Header1: h(), Header2: h()}
		noPanic(out, "tendermint.Misbehaviour.ValidateBasic", func() string { return "Misbehaviour{Header1,Header2: {TrustedHeight 0-1, TrustedValidators {}, no SignedHeader}}" }, func() { _ = m.ValidateBasic() })
	}},
	{sigAddRateLimit, "MsgAddRateLimit without max_percent_send / max_percent_recv", func(out *findings) {
		m := &ratelimittypes.MsgAddRateLimit{Signer: goodAddr, Denom: "uatom", ChannelOrClientId: "channel-0"}
		noPanic(out, "ratelimit.MsgAddRateLimit.ValidateBasic", func() string { return `MsgAddRateLimit{signer, denom "uatom", channel-0, percent fields absent}` }, func() { _ = m.ValidateBasic() })
	}},
	{sigUpdateRateLimit, "MsgUpdateRateLimit without max_percent_send / max_percent_recv", func(out *findings) {
		m := &ratelimittypes.MsgUpdateRateLimit{Signer: goodAddr, Denom: "uatom", ChannelOrClientId: "channel-0"}
		noPanic(out, "ratelimit.MsgUpdateRateLimit.ValidateBasic", func() string { return `MsgUpdateRateLimit{signer, denom "uatom", channel-0, percent fields absent}` }, func() { _ = m.ValidateBasic() })
	}},
	{sigSoloClientUnpack, "decoding a 06-solomachine ClientState that has no consensus_state", func(out *findings) {
		noPanic(out, "solomachine.ClientState decode (UnpackInterfaces)", func() string { return "wire 0801 (sequence: 1)" }, func() {
			_ = getEnv().cdc.Unmarshal([]byte{0x08, 0x01}, &solomachine.ClientState{})
		})
	}},
	{sigSoloMisbehaviour, "06-solomachine Misbehaviour without signature_one / signature_two", func(out *findings) {
		noPanic(out, "solomachine.Misbehaviour.ValidateBasic", func() string { return "Misbehaviour{Sequence: 1}" }, func() { _ = solomachine.Misbehaviour{Sequence: 1}.ValidateBasic() })
	}},
	{sigTransferAuthz, "TransferAuthorization whose spend limit holds a coin without amount", func(out *findings) {
		a := &transfertypes.TransferAuthorization{Allocations: []transfertypes.Allocation{{SourcePort: "transfer", SourceChannel: "channel-0", SpendLimit: sdk.Coins{{Denom: "uatom"}}}}}
		noPanic(out, "transfer.TransferAuthorization.ValidateBasic", func() string { return `Allocation{transfer, channel-0, spend_limit [{denom "uatom", amount absent}]}` }, func() { _ = a.ValidateBasic() })
	}},
	{sigCreateClient, "MsgCreateClient without client_state", func(out *findings) {
		noPanic(out, "client.MsgCreateClient.ValidateBasic", func() string { return "MsgCreateClient{Signer: valid, ClientState: nil}" }, func() { _ = clienttypes.MsgCreateClient{Signer: goodAddr}.ValidateBasic() })
	}},
	{sigParseChainID, "chain id in revision format whose revision number exceeds uint64", func(out *findings) {
		noPanic(out, "clienttypes.ParseChainID", func() string { return `"a-18446744073709551616"` }, func() { clienttypes.ParseChainID("a-18446744073709551616") })
	}},
}

// chainIDOverflowShape: revision format with a revision number that does not fit uint64.
func chainIDOverflowShape(s string) bool {
	if !clienttypes.IsRevisionFormat(s) {
		return false
	}
	_, err := strconv.ParseUint(s[strings.LastIndex(s, "-")+1:], 10, 64)
	return err != nil
}

// repairKnown removes the recorded defect shapes from a built message (recursively,
// including values cached inside Any) and returns how many it removed.
func repairKnown(m proto.Message) int {
	n := 0
	repairValue(reflect.ValueOf(m), &n, 0)
	return n
}

func zeroIfNil(i *sdkmath.Int, n *int) {
	if i.IsNil() {
		*i = sdkmath.ZeroInt()
		*n++
	}
}

func repairValue(v reflect.Value, n *int, depth int) {
	if depth > 12 {
		return
	}
	switch v.Kind() {
	case reflect.Ptr:
		if v.IsNil() {
			return
		}
		switch x := v.Interface().(type) {
		case *codectypes.Any:
			if cached, ok := x.GetCachedValue().(proto.Message); ok && cached != nil {
				before := *n
				repairValue(reflect.ValueOf(cached), n, depth+1)
				if *n != before {
					if a, err := codectypes.NewAnyWithValue(cached); err == nil {
						*x = *a
					}
				}
			}
			return
		case *ibctm.Misbehaviour:
			for _, h := range []*ibctm.Header{x.Header1, x.Header2} {
				if h != nil && (h.SignedHeader == nil || h.SignedHeader.Header == nil) {
					h.SignedHeader = &cmtproto.SignedHeader{Header: &cmtproto.Header{}}
					*n++
				}
			}
		case *ratelimittypes.MsgAddRateLimit:
			zeroIfNil(&x.MaxPercentSend, n)
			zeroIfNil(&x.MaxPercentRecv, n)
		case *ratelimittypes.MsgUpdateRateLimit:
			zeroIfNil(&x.MaxPercentSend, n)
			zeroIfNil(&x.MaxPercentRecv, n)
		case *solomachine.ClientState:
			if x.ConsensusState == nil {
				x.ConsensusState = &solomachine.ConsensusState{}
				*n++
			}
		case *solomachine.Misbehaviour:
			if x.SignatureOne == nil {
				x.SignatureOne = &solomachine.SignatureAndData{}
				*n++
			}
			if x.SignatureTwo == nil {
				x.SignatureTwo = &solomachine.SignatureAndData{}
				*n++
			}
		case *transfertypes.TransferAuthorization:
			for i := range x.Allocations {
				for j := range x.Allocations[i].SpendLimit {
					zeroIfNil(&x.Allocations[i].SpendLimit[j].Amount, n)
				}
			}
		case *clienttypes.MsgCreateClient:
			if x.ClientState == nil {
				x.ClientState = &codectypes.Any{}
				*n++
			}
			if x.ConsensusState == nil {
				x.ConsensusState = &codectypes.Any{}
				*n++
			}
		}
		repairValue(v.Elem(), n, depth+1)
	case reflect.Struct:
		if v.Type() == typInt || v.Type() == typTime || v.Type() == typDec {
			return
		}
		for i := 0; i < v.NumField(); i++ {
			fv := v.Field(i)
			if !fv.CanSet() {
				continue
			}
			if fv.Kind() == reflect.String {
				name := v.Type().Field(i).Name
				if (name == "ChainId" || name == "ChainID") && chainIDOverflowShape(fv.String()) {
					fv.SetString("testchain-1")
					*n++
				}
				continue
			}
			repairValue(fv, n, depth+1)
		}
	case reflect.Slice:
		if v.Type().Elem().Kind() == reflect.Uint8 {
			return
		}
		for i := 0; i < v.Len(); i++ {
			repairValue(v.Index(i), n, depth+1)
		}
	case reflect.Interface:
		if !v.IsNil() {
			repairValue(v.Elem(), n, depth+1)
		}
	}
}
