package pktb

import (
	"context"
	"testing"

	dbm "github.com/cosmos/cosmos-db"

	"cosmossdk.io/log/v2"

	"github.com/cosmos/cosmos-sdk/baseapp"
	storetypes "github.com/cosmos/cosmos-sdk/store/v2/types"
	simtestutil "github.com/cosmos/cosmos-sdk/testutil/sims"

	abci "github.com/cometbft/cometbft/abci/types"

	"encoding/json"

	ibcexported "github.com/cosmos/ibc-go/v11/modules/core/exported"
	ibctesting "github.com/cosmos/ibc-go/v11/testing"
	"github.com/cosmos/ibc-go/v11/testing/simapp"

	"github.com/cosmos/ibc-go/v11/modules/apps/callbacks/verifx/sim"
)

// blockClock records, through the public ABCI streaming extension point of BaseApp, the
// header time of every block a chain executes: height -> unix nanoseconds. This is the
// independent source of "the destination chain's real header time at height H" used by
// the timeout oracles (it does not go through any light client).
type blockClock struct {
	times map[int64]int64
}

func (c *blockClock) ListenFinalizeBlock(_ context.Context, req abci.RequestFinalizeBlock, _ abci.ResponseFinalizeBlock) error {
	c.times[req.Height] = req.Time.UnixNano()
	return nil
}

func (c *blockClock) ListenCommit(context.Context, abci.ResponseCommit, []*storetypes.StoreKVPair) error {
	return nil
}

// At returns the header time of block h (ok=false when the chain never executed it).
func (c *blockClock) At(h uint64) (int64, bool) {
	t, ok := c.times[int64(h)]
	return t, ok
}

// newClockWorld is sim.NewWorld with one blockClock per chain (index = chain index).
func newClockWorld(outer *testing.T, n int) (*sim.World, []*blockClock) {
	var clocks []*blockClock
	creator := func() (ibctesting.TestingApp, map[string]json.RawMessage) {
		ck := &blockClock{times: map[int64]int64{}}
		clocks = append(clocks, ck)
		app := simapp.NewSimApp(log.NewNopLogger(), dbm.NewMemDB(), nil, true, simtestutil.EmptyAppOptions{}, func(ba *baseapp.BaseApp) {
			ba.SetStreamingManager(storetypes.StreamingManager{ABCIListeners: []storetypes.ABCIListener{ck}})
		})
		return app, app.DefaultGenesis()
	}
	w := sim.NewWorld(outer, n, creator)
	return w, clocks
}

// ibcAt reads a raw key of chain i's IBC store as of committed version `version`
// (the state a consensus state at height version+1 commits to). ok=false when the
// version cannot be served.
func ibcAt(w *sim.World, i int, key []byte, version int64) (val []byte, ok bool) {
	if version < 1 || version > w.Height(i) {
		return nil, false
	}
	defer func() {
		if r := recover(); r != nil {
			val, ok = nil, false
		}
	}()
	res, err := w.Chains[i].App.Query(w.Ctx(i).Context(), &abci.RequestQuery{
		Path: "store/" + ibcexported.StoreKey + "/key", Height: version, Data: key,
	})
	if err != nil || res == nil || res.Code != 0 {
		return nil, false
	}
	return res.Value, true
}

func pick(n, i int) int {
	if n <= 0 {
		return 0
	}
	i %= n
	if i < 0 {
		i += n
	}
	return i
}

// rawDiff lists the raw keys of one store that differ between two snapshots.
func rawDiff(a, b sim.Snap, store string) []string {
	var out []string
	am, bm := a[store], b[store]
	for k, v := range am {
		if bv, ok := bm[k]; !ok || bv != v {
			out = append(out, k)
		}
	}
	for k := range bm {
		if _, ok := am[k]; !ok {
			out = append(out, k)
		}
	}
	return out
}
