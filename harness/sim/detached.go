package sim

import (
	"testing"

	ibctesting "github.com/cosmos/ibc-go/v11/testing"
	"github.com/cosmos/ibc-go/v11/testing/simapp"
)

// NewDetachedWorld installs the scripted mock applications (the same callbacks NewWorld
// installs) on stand-alone SimApp instances that are not driven by ibctesting chains, e.g.
// nodes that replay a recorded block stream. Only World.Log / World.Committed and the
// App(i) accessor are meaningful on the result; there is no coordinator, clock or relayer.
func NewDetachedWorld(tb testing.TB, apps ...*simapp.SimApp) *World {
	w := &World{}
	for i, a := range apps {
		w.Chains = append(w.Chains, &ibctesting.TestChain{TB: tb, App: a, ChainID: a.ChainID()})
		w.installApps(i)
	}
	return w
}
