package token

import (
	"testing"

	"pgregory.net/rapid"

	"github.com/cosmos/ibc-go/v11/modules/apps/callbacks/verifx/tokensim"
	"github.com/cosmos/ibc-go/v11/modules/apps/callbacks/verifx/vx"
)

// C30: ICS-20 conserves tokens across chains. After every step of every history:
//   (a) for every end (X, c) with counterparty (Y, c') and every denomination D the model knows on
//       X (natives of X and vouchers, i.e. multi-hop): bank balance of escrow_X(c) in D ==
//       bank supply on Y of voucher(c', D) + in-flight D over c + in-flight voucher(c', D) over c';
//   (b) the supply of every native denomination on its home chain is what it was after funding;
//   (c) a step changes only the accounts it names (sender / receiver / escrow of the end / transfer
//       module) on the chain that ran the transaction, nothing on other chains, and nothing at
//       all when the transaction failed, was a no-op, or was no transfer/relay message.
// The left- and right-hand sides of (a) are read from the real chains; only the in-flight set is
// the model's, and it is driven by observed outcomes (tx committed?, no-op?, ack status).

func runC30(outer *testing.T) func(t rapid.TB, h tokensim.History, rec *vx.Case) {
	return func(t rapid.TB, h tokensim.History, rec *vx.Case) {
		const id = "C30"
		w := tokensim.NewWorld(outer, h.Spec)
		ta := newTally()
		var evaluated int64
		for i, op := range h.Ops {
			st := w.Exec(i, op)
			ta.note(w, st)
			if fs := w.CheckFrame(st); len(fs) > 0 {
				vx.Violatef(t, rec, id, fs[0].Sig, "%s -- %s", fmtFindings(fs), st.Describe())
				return
			}
			fs, n := w.CheckChannelBalance(false)
			evaluated += int64(n)
			if len(fs) > 0 {
				vx.Violatef(t, rec, id, fs[0].Sig, "after step %d: %s -- %s", i, fmtFindings(fs), st.Describe())
				return
			}
			if fs := w.CheckNativeSupply(); len(fs) > 0 {
				vx.Violatef(t, rec, id, fs[0].Sig, "after step %d: %s -- %s", i, fmtFindings(fs), st.Describe())
				return
			}
		}
		rec.Add("channel_equations_evaluated", evaluated)
		rec.Add("model_balance_mismatch", int64(len(w.ModelDiff())))
		ta.record(rec, h)
		rec.NonTrivialIf(ta.multihop >= 1 && ta.refunds >= 1)
	}
}

func TestC30(t *testing.T) {
	vx.Check(t, vx.Prop[tokensim.History]{
		ID: "C30",
		Rule: "2-chain worlds with v1+v2+alias links or 3-chain triangles with random link kinds per edge; histories interleave multi-hop route scripts (A->B->C->A, turn-backs), failure scripts (receive disabled, blocked / invalid receiver, timeout by height / time, forged acks, duplicate terminal messages), timeout-boundary race scripts (timeout in whole seconds on the 5 s block grid; receive delivered in the destination block whose time == timeout / the one before / after; MsgTimeout proven at exactly that height / -1 / +1 after updating the source client with exactly that header), fan-out scripts and noise (arbitrary sends incl. two-payload v2 packets, relay messages for any packet at stale/fresh heights signed by any account, verbatim duplicates, blocks, time, client updates); " +
			"non-trivial = at least one delivered multi-hop voucher (a voucher forwarded on to mint a >=2-hop voucher) and at least one refund (error ack or timeout); distinct by full history",
		MinNTFrac:   0.3,
		Assumptions: []string{assumeDenoms, "receivers are tracked accounts, an invalid string or a blocked module account; nobody sends to an escrow address (that is a donation, see C31)"},
		Gen: func(t *rapid.T) tokensim.History {
			return tokensim.GenHistory(t, tokensim.GenCfg{MaxScripts: 5, Race: true})
		},
		Run: runC30(t),
	})
}
