package pktc

import (
	"testing"
	"time"

	abci "github.com/cometbft/cometbft/abci/types"

	clienttypes "github.com/cosmos/ibc-go/v11/modules/core/02-client/types"
	channeltypesv2 "github.com/cosmos/ibc-go/v11/modules/core/04-channel/v2/types"
	ibctesting "github.com/cosmos/ibc-go/v11/testing"

	"github.com/cosmos/ibc-go/v11/modules/apps/callbacks/verifx/sim"
	"github.com/cosmos/ibc-go/v11/modules/apps/callbacks/verifx/vx"
)

// exec is the state of one running case.
type exec struct {
	c     mcase
	w     *sim.World
	links [4]*sim.Link // honest links, indexed by sim.LinkKind
	L     *sim.Link    // link under test
	Sib   *sim.Link    // sibling link of the same protocol family
	Rogue *sim.Link    // C05/v2 only: extra client on the source chain whose counterparty names L's destination id
	main  []*sim.Pkt
	twin  []*sim.Pkt // twin[j] (j < NSib): identical packet on the sibling link
	rtwin []*sim.Pkt // identical packet sent through the rogue client
	recvd map[int]bool
	acked map[int]bool
	noiseAt int

	frozen  bool
	expired bool
	rec     *vx.Case
}

func rev(w *sim.World, chain int) uint64 { return clienttypes.ParseChainID(w.Chains[chain].ChainID) }

// buildWorld creates 2 chains, optional id asymmetry, and one link of every kind.
func buildWorld(outer *testing.T, c mcase) *exec {
	w := sim.NewWorld(outer, 2, nil)
	x := &exec{c: c, w: w, recvd: map[int]bool{}, acked: map[int]bool{}}
	if c.Asym != 0 {
		// one extra (unused) client, one extra client+connection and a channel stuck in INIT on one chain only,
		// so that the two ends of every later link carry different client and channel identifiers
		sim.Guard("asymmetry setup", func() {
			p := ibctesting.NewPath(w.Chains[0], w.Chains[1]).DisableUniqueChannelIDs()
			ep := p.EndpointA
			if c.Asym == 2 {
				ep = p.EndpointB
			}
			if err := ep.CreateClient(); err != nil {
				vx.Harnessf("asym CreateClient: %v", err)
			}
			p.SetupConnections()
			if err := ep.ChanOpenInit(); err != nil {
				vx.Harnessf("asym ChanOpenInit: %v", err)
			}
		})
	}
	// v1 links are created here (not through w.AddLink) so that channel identifiers are the ones real chains
	// hand out (channel-0, channel-1, ... per chain) instead of ibctesting's process-wide unique numbering.
	addV1 := func(kind sim.LinkKind) *sim.Link {
		l := &sim.Link{Idx: len(w.Links), Kind: kind, Chain: [2]int{0, 1}}
		sim.Guard("link setup", func() {
			p := ibctesting.NewPath(w.Chains[0], w.Chains[1]).DisableUniqueChannelIDs()
			if kind == sim.V1Ordered {
				p.SetChannelOrdered()
			}
			p.Setup()
			l.Path = p
		})
		w.Links = append(w.Links, l)
		return l
	}
	x.links[sim.V1Unordered] = addV1(sim.V1Unordered)
	x.links[sim.V1Ordered] = addV1(sim.V1Ordered)
	x.links[sim.V2Clients] = w.AddLink(sim.V2Clients, 0, 1, nil)
	x.links[sim.V2Alias] = w.AddLink(sim.V2Alias, 0, 1, x.links[sim.V1Unordered])
	x.L = x.links[c.Kind]
	x.Sib = x.links[c.Kind^1] // 0<->1, 2<->3
	return x
}

// addRogue creates, on the source chain, one more light client of the destination chain and registers L's
// destination identifier as its counterparty: packets sent through it are committed under another source id
// but hash to the same commitment as packets sent through L.
func (x *exec) addRogue() {
	w := x.w
	sc, dc := x.L.Chain[x.c.Dir], x.L.Chain[1-x.c.Dir]
	var p *ibctesting.Path
	sim.Guard("rogue client setup", func() {
		p = ibctesting.NewPath(w.Chains[sc], w.Chains[dc])
		if err := p.EndpointA.CreateClient(); err != nil {
			vx.Harnessf("rogue CreateClient: %v", err)
		}
		p.EndpointB.ClientID = x.L.ID(1 - x.c.Dir)
		if err := p.EndpointA.RegisterCounterparty(); err != nil {
			vx.Harnessf("rogue RegisterCounterparty: %v", err)
		}
	})
	x.Rogue = &sim.Link{Idx: len(w.Links), Kind: sim.V2Clients, Chain: [2]int{sc, dc}, Path: p}
	w.Links = append(w.Links, x.Rogue)
}

type absTO struct {
	th clienttypes.Height
	ts uint64 // seconds
}

func (x *exec) script(j, i int, sp pspec) sim.Script {
	s := sim.Script{N: 100 + 10*j + i, Out: sp.Out[i]}
	if (j+i)%2 == 0 {
		s.W = []string{string(rune('a' + (j+i)%4))}
	}
	return s
}

func (x *exec) payloads(j int, sp pspec) []channeltypesv2.Payload {
	var pls []channeltypesv2.Payload
	for i := range sp.Out {
		pls = append(pls, sim.MockPayload(sp.App[i], x.script(j, i, sp)))
	}
	return pls
}

// send sends packet j of the prefix on link l, direction dir (rogue link: always its direction 0).
func (x *exec) send(l *sim.Link, dir int, j int, sp pspec, to absTO) *sim.Pkt {
	w := x.w
	if l.IsV2() {
		p, res := w.SendV2(l, dir, 0, to.ts, x.payloads(j, sp)...)
		if p == nil {
			vx.Harnessf("prefix SendV2 failed on link %d: %v", l.Idx, res.Err)
		}
		return p
	}
	p, err := w.SendV1(l, dir, to.th, to.ts*1_000_000_000, x.script(j, 0, sp).Bytes())
	if err != nil {
		vx.Harnessf("prefix SendV1 failed on link %d: %v", l.Idx, err)
	}
	return p
}

func (x *exec) doNoise() {
	if x.noiseAt >= len(x.c.Noise) {
		return
	}
	n := x.c.Noise[x.noiseAt]
	x.noiseAt++
	switch n.K {
	case "block":
		x.w.Block(n.C%2, 1+n.N%3)
	case "time":
		x.w.AdvanceTime(time.Duration(n.N) * time.Second)
	case "update":
		side := n.C % 2
		x.w.UpdateClient(x.L.Chain[side], x.L.Client(side), x.L.Chain[1-side], 0)
	}
}

// relayRecv relays p honestly. A rejected honest relay is not this property's concern (it is counted and the
// packet simply stays pending); non-vacuity is guarded by the controls.
func (x *exec) relayRecv(p *sim.Pkt, sig int) bool {
	w := x.w
	l := w.Links[p.Link]
	side := 1 - p.Dir
	h := w.FreshHeight(l, side, sig)
	res := w.Deliver(l.Chain[side], sig, w.BuildRecv(p, h, sig))
	if !res.OK || sim.ResultIsNoop(res) {
		x.rec.Add("prefix_relay_failed", 1)
		return false
	}
	w.NoteAck(p, res)
	x.recvd[p.Idx] = true
	return true
}

// writeAsync writes the acknowledgement of an asynchronously handled packet, as its application would.
func (x *exec) writeAsync(p *sim.Pkt, j int, sp pspec) {
	w := x.w
	dc := w.DstChain(p)
	ctx, write := w.Ctx(dc).CacheContext()
	n := 100 + 10*j
	if p.V2 {
		ack := channeltypesv2.NewAcknowledgement(sim.OKAck2(n))
		if sp.AAck == "err" {
			ack = channeltypesv2.NewAcknowledgement(channeltypesv2.ErrorAcknowledgement[:])
		}
		if err := w.App(dc).IBCKeeper.ChannelKeeperV2.WriteAcknowledgement(ctx, p.P2.DestinationClient, p.P2.Sequence, ack); err != nil {
			vx.Harnessf("async v2 WriteAcknowledgement: %v", err)
		}
		p.Ack2 = &ack
	} else {
		a := sim.OKAck(n)
		if sp.AAck == "err" {
			a = sim.ErrAck()
		}
		if err := w.App(dc).IBCKeeper.ChannelKeeper.WriteAcknowledgement(ctx, p.P1, a); err != nil {
			vx.Harnessf("async v1 WriteAcknowledgement: %v", err)
		}
		p.Ack1 = a.Acknowledgement()
	}
	write()
	w.Block(dc, 1)
}

func (x *exec) ackKnown(p *sim.Pkt) bool {
	if p.V2 {
		return p.Ack2 != nil
	}
	return p.Ack1 != nil
}

func (x *exec) relayAck(p *sim.Pkt, sig int) bool {
	w := x.w
	l := w.Links[p.Link]
	h := w.FreshHeight(l, p.Dir, sig)
	var a2 channeltypesv2.Acknowledgement
	if p.Ack2 != nil {
		a2 = *p.Ack2
	}
	res := w.Deliver(l.Chain[p.Dir], sig, w.BuildAck(p, p.Ack1, a2, h, sig))
	if !res.OK || sim.ResultIsNoop(res) {
		x.rec.Add("prefix_relay_failed", 1)
		return false
	}
	x.acked[p.Idx] = true
	return true
}

func isAsync(sp pspec) bool { return len(sp.Out) == 1 && sp.Out[0] == "async" }

// prefix runs the honest traffic.
func (x *exec) prefix() {
	w, c := x.w, x.c
	dir := c.Dir
	dc := x.L.Chain[1-dir]
	if c.Prop == "C05" && x.L.IsV2() {
		x.addRogue()
	}
	for j, sp := range c.Pk {
		to := absTO{th: clienttypes.ZeroHeight()}
		if sp.TH != 0 {
			to.th = clienttypes.NewHeight(rev(w, dc), uint64(w.Height(dc)+int64(sp.TH)))
		}
		if sp.TT != 0 {
			to.ts = uint64(w.Coord.CurrentTime.Unix() + int64(sp.TT))
		}
		x.main = append(x.main, x.send(x.L, dir, j, sp, to))
		if j < c.NSib {
			x.twin = append(x.twin, x.send(x.Sib, dir, j, sp, to))
			if x.Rogue != nil {
				x.rtwin = append(x.rtwin, x.send(x.Rogue, 0, j, sp, to))
			}
		}
		x.doNoise()
	}
	if c.Prop == "C05" {
		for j := 0; j < c.Done && j < len(x.main)-2; j++ {
			p := x.main[j]
			if !x.relayRecv(p, j%3) {
				break
			}
			if isAsync(c.Pk[j]) {
				x.writeAsync(p, j, c.Pk[j])
			}
			if j%2 == 0 && x.ackKnown(p) {
				x.relayAck(p, (j+1)%3)
			}
			x.doNoise()
		}
		return
	}
	// C06: receive every main packet but (sometimes) the last, and every twin; write async acks; ack the first Done
	nrecv := len(x.main)
	if len(c.Noise)%2 == 1 {
		nrecv--
	}
	for j := 0; j < nrecv; j++ {
		p := x.main[j]
		if !x.relayRecv(p, j%3) {
			break // (ordered channels need the receives in order)
		}
		if isAsync(c.Pk[j]) {
			x.writeAsync(p, j, c.Pk[j])
		}
		if j < len(x.twin) && x.relayRecv(x.twin[j], (j+1)%3) && isAsync(c.Pk[j]) {
			x.writeAsync(x.twin[j], j, c.Pk[j])
		}
		x.doNoise()
	}
	for j := 0; j < c.Done && j < nrecv-2; j++ {
		if !x.recvd[x.main[j].Idx] || !x.relayAck(x.main[j], j%3) {
			break
		}
	}
}

// valueAt returns the value chain i stored under key in the IBC store as provable at consensus height h.
func valueAt(w *sim.World, i int, key []byte, h uint64) []byte {
	if h < 2 || int64(h) > w.Height(i)+1 {
		return nil
	}
	res, err := w.Chains[i].App.Query(w.Ctx(i).Context(), &abci.RequestQuery{Path: "store/ibc/key", Height: int64(h) - 1, Data: key})
	if err != nil || res == nil {
		return nil
	}
	return res.Value
}

func curValue(w *sim.World, i int, key []byte) []byte {
	return w.Ctx(i).KVStore(w.App(i).GetKey("ibc")).Get(key)
}
