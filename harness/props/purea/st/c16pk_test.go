package st

import (
	"fmt"
	"sort"
	"testing"
	"time"

	"pgregory.net/rapid"

	sdk "github.com/cosmos/cosmos-sdk/types"

	clienttypes "github.com/cosmos/ibc-go/v11/modules/core/02-client/types"
	channeltypesv2 "github.com/cosmos/ibc-go/v11/modules/core/04-channel/v2/types"
	host "github.com/cosmos/ibc-go/v11/modules/core/24-host"
	hostv2 "github.com/cosmos/ibc-go/v11/modules/core/24-host/v2"

	"github.com/cosmos/ibc-go/v11/modules/apps/callbacks/verifx/sim"
	"github.com/cosmos/ibc-go/v11/modules/apps/callbacks/verifx/vx"
)

// C16 (stateful, packet key spaces): three key spaces live side by side on one pair of
// chains and one pair of light clients:
//   v1      packets on the UNORDERED channel  channel-N           (ICS-24 '/'-paths)
//   alias   v2 packets addressed to the same  channel-N           (channel-N | kind | seq)
//   direct  v2 packets addressed to the underlying client 07-tendermint-M (client | kind | seq)
// Sequences start at 1 in the alias and in the direct space, so equal sequences exist in
// both. Every send / recv / ack / timeout transaction (successful or not) is bracketed by
// raw dumps of the ibc store of the executing chain; every changed key must be one of the
// keys of exactly the packet the message names, in exactly that packet's layout:
//   send    : commitment(id,seq), nextSequenceSend(id)
//   recv    : receipt(id,seq), ack(id,seq), async-packet(id,seq)
//   ack/timeout : commitment(id,seq)
// Any other changed key is a write into another object's key space.

type c16pkOp struct {
	K     string // send | recv | ack | timeout | time | block
	L     int    // send: 0 v1, 1 alias, 2 direct
	Dir   int    // send: 0 A->B, 1 B->A
	Short bool   // send: timeout in 30 s (else 1 h)
	Out   int    // send: receiver outcome 0 ok, 1 err, 2 async
	P     int    // relay: packet index (mod number of packets)
	Sig   int
}

type c16pkHist struct {
	Ops []c16pkOp
}

func genC16pk(t *rapid.T) c16pkHist {
	var h c16pkHist
	// paired sends: the same sequence numbers come to exist in the alias and the direct space
	pairs := rapid.IntRange(1, 3).Draw(t, "pairs")
	for i := 0; i < pairs; i++ {
		dir := rapid.IntRange(0, 3).Draw(t, "pdir") / 3 // mostly A->B so that pairs share a source chain
		order := []int{1, 2}
		if rapid.Bool().Draw(t, "swap") {
			order = []int{2, 1}
		}
		for _, l := range order {
			h.Ops = append(h.Ops, c16pkOp{K: "send", L: l, Dir: dir, Short: rapid.IntRange(0, 2).Draw(t, "short") != 0, Out: rapid.IntRange(0, 2).Draw(t, "out")})
		}
		if rapid.IntRange(0, 1).Draw(t, "v1too") == 0 {
			h.Ops = append(h.Ops, c16pkOp{K: "send", L: 0, Dir: dir, Short: rapid.Bool().Draw(t, "short1"), Out: rapid.IntRange(0, 1).Draw(t, "out1")})
		}
	}
	kinds := []string{"recv", "recv", "ack", "ack", "timeout", "timeout", "timeout", "send", "time", "block"}
	n := rapid.IntRange(6, 16).Draw(t, "nops")
	timeAt := rapid.IntRange(0, 3).Draw(t, "timeAt")
	for i := 0; i < n; i++ {
		if i == timeAt {
			h.Ops = append(h.Ops, c16pkOp{K: "time"})
		}
		h.Ops = append(h.Ops, c16pkOp{
			K: rapid.SampledFrom(kinds).Draw(t, "k"), L: rapid.IntRange(0, 2).Draw(t, "l"), Dir: rapid.IntRange(0, 1).Draw(t, "dir"),
			Short: rapid.Bool().Draw(t, "sh"), Out: rapid.IntRange(0, 2).Draw(t, "o"), P: rapid.IntRange(0, 11).Draw(t, "p"), Sig: rapid.IntRange(0, 2).Draw(t, "sig"),
		})
	}
	return h
}

func c16pkDump(w *sim.World, chain int) map[string]string {
	return w.Snapshot(chain, "ibc")["ibc"]
}

// c16pkAllowed lists the keys operation `op` on packet p may touch on the executing chain.
func c16pkAllowed(op string, p *sim.Pkt) map[string]string {
	a := map[string]string{}
	if p.V2 {
		s, d, n := p.P2.SourceClient, p.P2.DestinationClient, p.P2.Sequence
		switch op {
		case "send":
			a[string(hostv2.PacketCommitmentKey(s, n))] = "commitment"
			a[string(hostv2.NextSequenceSendKey(s))] = "nextSequenceSend"
		case "recv":
			a[string(hostv2.PacketReceiptKey(d, n))] = "receipt"
			a[string(hostv2.PacketAcknowledgementKey(d, n))] = "ack"
			a[string(channeltypesv2.AsyncPacketKey(d, n))] = "async"
		case "ack", "timeout":
			a[string(hostv2.PacketCommitmentKey(s, n))] = "commitment"
		}
		return a
	}
	q := p.P1
	switch op {
	case "send":
		a[string(host.PacketCommitmentKey(q.SourcePort, q.SourceChannel, q.Sequence))] = "commitment"
		a[string(hostv2.NextSequenceSendKey(q.SourceChannel))] = "nextSequenceSend"
	case "recv":
		a[string(host.PacketReceiptKey(q.DestinationPort, q.DestinationChannel, q.Sequence))] = "receipt"
		a[string(host.PacketAcknowledgementKey(q.DestinationPort, q.DestinationChannel, q.Sequence))] = "ack"
	case "ack", "timeout":
		a[string(host.PacketCommitmentKey(q.SourcePort, q.SourceChannel, q.Sequence))] = "commitment"
	}
	return a
}

func runC16pk(outer *testing.T) func(rapid.TB, c16pkHist, *vx.Case) {
	return func(t rapid.TB, h c16pkHist, rec *vx.Case) {
		const id = "C16"
		w := sim.NewWorld(outer, 2, nil)
		l1 := w.AddLink(sim.V1Unordered, 0, 1, nil)
		la := w.AddLink(sim.V2Alias, 0, 1, l1)
		// the SAME underlying clients are also a direct v2 client pair
		sim.Guard("register counterparties on the base clients", func() { l1.Path.SetupCounterparties() })
		ld := &sim.Link{Idx: len(w.Links), Kind: sim.V2Clients, Chain: [2]int{0, 1}, Path: l1.Path}
		w.Links = append(w.Links, ld)
		links := []*sim.Link{l1, la, ld}
		if la.ID(0) == ld.ID(0) || la.Client(0) != ld.ID(0) {
			vx.Harnessf("alias %q / direct %q / base client %q not set up as intended", la.ID(0), ld.ID(0), la.Client(0))
		}

		kindName := []string{"v1", "alias", "direct"}
		okOps := map[string]bool{}
		sameSeqBoth := false
		foreignLive := 0 // judged removals executed while the sibling key space held the same sequence
		nonce := 0
		short := map[int]bool{}

		judge := func(step int, op string, p *sim.Pkt, chain int, before, after map[string]string, ok bool) int {
			allowed := c16pkAllowed(op, p)
			changed := c16nsChanged(before, after)
			for _, k := range changed {
				if _, fine := allowed[k]; fine {
					continue
				}
				vx.Violatef(t, rec, id, "packet-op-writes-foreign-key", "step %d: %s of %s (tx ok=%v) on chain %d changed key %q which does not belong to that packet; allowed keys %q; all changed keys %q", step, op, p, ok, chain, k, c16pkKeys(allowed), changed)
			}
			return len(changed)
		}

		for i, op := range h.Ops {
			switch op.K {
			case "time":
				w.AdvanceTime(2 * time.Minute)
				w.Block(0, 1)
				w.Block(1, 1)
			case "block":
				w.Block(op.Dir%2, 1)
			case "send":
				l := links[op.L%3]
				dir := op.Dir % 2
				c := l.Chain[dir]
				nonce++
				out := []string{"ok", "err", "async"}[op.Out%3]
				now := w.Coord.CurrentTime
				d := time.Hour
				if op.Short {
					d = 30 * time.Second
				}
				before := c16pkDump(w, c)
				var p *sim.Pkt
				okTx := false
				if l.IsV2() {
					var res sim.TxResult
					p, res = w.SendV2(l, dir, op.Sig, uint64(now.Add(d).Unix()), sim.MockPayload("A", sim.Script{N: nonce, Out: out}))
					okTx = res.OK && p != nil
				} else {
					if out == "async" {
						out = "ok"
					}
					var err error
					p, err = w.SendV1(l, dir, clienttypes.ZeroHeight(), uint64(now.Add(d).UnixNano()), sim.Script{N: nonce, Out: out}.Bytes())
					okTx = err == nil && p != nil
				}
				after := c16pkDump(w, c)
				if !okTx {
					if ch := c16nsChanged(before, after); len(ch) > 0 {
						vx.Violatef(t, rec, id, "packet-op-writes-foreign-key", "step %d: failed send on %s link changed keys %q", i, kindName[op.L%3], ch)
					}
					rec.Add("sends_failed", 1)
					break
				}
				short[p.Idx] = op.Short
				if judge(i, "send", p, c, before, after, true) > 0 {
					okOps["send-"+kindName[op.L%3]] = true
				}
			case "recv", "ack", "timeout":
				if len(w.Pkts) == 0 {
					break
				}
				// 3 of 4 relays aim at a packet for which the message can make sense (commitment still
				// there; for timeouts a short-lived packet, for recv one without stored ack); the
				// rest hit any packet (replays, wrong order)
				cands := w.Pkts
				if op.P < 9 {
					var f []*sim.Pkt
					for _, q := range w.Pkts {
						if !w.HasCommitment(q) {
							continue
						}
						if op.K == "timeout" && !short[q.Idx] {
							continue
						}
						if op.K == "recv" && w.StoredAck(q) != nil {
							continue
						}
						if op.K == "ack" && w.StoredAck(q) == nil {
							continue
						}
						f = append(f, q)
					}
					if len(f) > 0 {
						cands = f
					}
				}
				p := cands[op.P%len(cands)]
				pl := w.Links[p.Link]
				side := p.Dir // ack / timeout run on the source side
				if op.K == "recv" {
					side = 1 - p.Dir
				}
				chain := pl.Chain[side]
				// client update in its own step (its own transaction), outside the judged window
				hgt := w.FreshHeight(pl, side, 0)
				var msg sdk.Msg
				switch op.K {
				case "recv":
					msg = w.BuildRecv(p, hgt, op.Sig)
				case "ack":
					a2 := channeltypesv2.NewAcknowledgement(sim.OKAck2(0))
					if p.Ack2 != nil {
						a2 = *p.Ack2
					}
					a1 := p.Ack1
					if a1 == nil {
						a1 = sim.OKAck(0).Acknowledgement()
					}
					msg = w.BuildAck(p, a1, a2, hgt, op.Sig)
				case "timeout":
					msg = w.BuildTimeout(p, w.NextSeqRecv(p), hgt, op.Sig)
				}
				// is the same (sequence) alive in the sibling v2 key space of this chain right now?
				sibling := false
				if p.V2 && op.K != "recv" {
					for _, q := range w.Pkts {
						if q != p && q.V2 && q.Dir == p.Dir && q.P2.Sequence == p.P2.Sequence && q.P2.SourceClient != p.P2.SourceClient && w.HasCommitment(q) {
							sibling = true
						}
					}
				}
				before := c16pkDump(w, chain)
				res := w.Deliver(chain, op.Sig, msg)
				after := c16pkDump(w, chain)
				n := judge(i, op.K, p, chain, before, after, res.OK)
				if op.K == "recv" && res.OK && !sim.ResultIsNoop(res) {
					w.NoteAck(p, res)
				}
				if res.OK && n > 0 {
					kind := "v1"
					if p.V2 {
						kind = kindName[1]
						if pl.Kind == sim.V2Clients {
							kind = kindName[2]
						}
					}
					okOps[op.K+"-"+kind] = true
					if sibling {
						foreignLive++
					}
				}
				if !res.OK {
					rec.Add("relays_failed", 1)
				} else {
					rec.Add("relays_ok", 1)
				}
			default:
				vx.Harnessf("unknown op %q", op.K)
			}
		}
		// equal sequences in the alias and the direct key space of one chain
		seen := map[string]bool{}
		for _, p := range w.Pkts {
			if p.V2 {
				k := fmt.Sprintf("%d/%d", w.SrcChain(p), p.P2.Sequence)
				kind := w.Links[p.Link].Kind.String()
				if seen[k+"/other:"+kind] {
					sameSeqBoth = true
				}
				for _, o := range []sim.LinkKind{sim.V2Alias, sim.V2Clients} {
					if o.String() != kind {
						seen[k+"/other:"+o.String()] = true
					}
				}
			}
		}
		names := make([]string, 0, len(okOps))
		for k := range okOps {
			names = append(names, k)
		}
		sort.Strings(names)
		for _, k := range names {
			rec.Class("ok:%s", k)
		}
		if sameSeqBoth {
			rec.Class("same-sequence-in-alias-and-direct-space")
		}
		if foreignLive > 0 {
			rec.Class("ack/timeout-while-sibling-commitment-alive")
		}
		rec.Add("packets", int64(len(w.Pkts)))
		rec.Add("removals_with_live_sibling", int64(foreignLive))
		rec.NonTrivialIf(sameSeqBoth && foreignLive > 0)
	}
}

func c16pkKeys(m map[string]string) []string {
	var out []string
	for k := range m {
		out = append(out, k)
	}
	sort.Strings(out)
	return out
}

func TestC16PacketKeys(t *testing.T) {
	vx.Check(t, vx.Prop[c16pkHist]{
		ID:        "C16",
		Rule:      "stateful: 2 chains, one UNORDERED v1 channel, v2 traffic addressed to its channel ids (alias) and v2 traffic addressed directly to the SAME underlying light clients (counterparties registered on the base clients); 1-3 paired alias+direct sends (equal sequences in both v2 key spaces), optional v1 sends, then 6-16 recv/ack/timeout/send/time/block ops in random order (30 s or 1 h timeouts, one 2-minute clock jump); every packet transaction is bracketed by raw ibc-store dumps and may only change keys of exactly the named packet in its own layout. non-trivial = equal sequences existed in the alias and direct space of one chain AND at least one successful ack/timeout removed a commitment while the sibling space still held a commitment with the same sequence; distinct by full history",
		MinNTFrac: 0.35,
		Gen:       genC16pk,
		Run:       runC16pk(t),
	})
}
