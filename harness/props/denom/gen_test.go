package denom

import (
	"strings"

	"pgregory.net/rapid"
)

// Generator of base denominations BY CONSTRUCTION from what an SDK chain can hold:
// strings matching the SDK denom grammar [a-zA-Z][a-zA-Z0-9/:._-]{2,127} built from 1..6
// '/'-separated segments whose shapes are drawn from a fixed palette. Whether ICS-20 accepts the
// denom for transfer is NOT decided here: it is decided by submitting MsgTransfer (C33) or running
// the send (C42) on the origin, and rejections are counted.

var (
	plainWords  = []string{"uatom", "stake", "gamm", "pool", "factory", "ab", "cd", "foo", "wei", "e", "x", "u", "Token", "LP", "a.b", "a_b", "a:b", "a-b", "erc20", "cw20", "share", "v1", "x9"}
	channelLike = []string{"channel-0", "channel-1", "channel-2", "channel-7", "channel-10", "channel-141", "channel-18446744073709551615"}
	// not hop-like on purpose (uint64 overflow / wrong format) but close to it
	nearChannel = []string{"channel-18446744073709551616", "channel-99999999999999999999", "channel-", "channel-x", "channel-1a", "Channel-1", "channel_1", "channel-1-", "channels-1x"}
	clientLike  = []string{"07-tendermint-0", "07-tendermint-3", "client-10", "client-0", "08-wasm-2", "pool-1", "pool-77", "lp-5", "a-1", "x_y-3", "06-solomachine-4", "09-localhost", "10-attestations-1", "ab-cd-ef-12"}
	nearClient  = []string{"pool-", "pool-1x", "-1", "pool--", "07-tendermint", "client-18446744073709551616", "p-1-", "1-", "tendermint-07-"}
	portLike    = []string{"transfer", "icahost", "icacontroller-1", "mock", "wasm.cosmos1abc", "transfer2"}
	numeric     = []string{"0", "1", "7", "42", "1000000", "007"}
	oneChar     = []string{"a", "z", "Q", "7", "-", ".", "_", ":"}
)

const (
	shapePlain = iota
	shapeChannel
	shapeNearChannel
	shapeClient
	shapeNearClient
	shapePort
	shapeNumeric
	shapeOneChar
	shapeIBC
	shapeEmpty
)

var shapeWeights = []int{
	shapePlain, shapePlain, shapePlain, shapePlain, shapePlain,
	shapeChannel, shapeChannel, shapeChannel,
	shapeClient, shapeClient, shapeClient,
	shapeNearChannel, shapeNearClient,
	shapePort, shapePort,
	shapeNumeric, shapeOneChar, shapeOneChar,
	shapeIBC, shapeEmpty,
}

func genSegment(t *rapid.T, label string) string {
	switch rapid.SampledFrom(shapeWeights).Draw(t, label+"-shape") {
	case shapePlain:
		return rapid.SampledFrom(plainWords).Draw(t, label)
	case shapeChannel:
		return rapid.SampledFrom(channelLike).Draw(t, label)
	case shapeNearChannel:
		return rapid.SampledFrom(nearChannel).Draw(t, label)
	case shapeClient:
		return rapid.SampledFrom(clientLike).Draw(t, label)
	case shapeNearClient:
		return rapid.SampledFrom(nearClient).Draw(t, label)
	case shapePort:
		return rapid.SampledFrom(portLike).Draw(t, label)
	case shapeNumeric:
		return rapid.SampledFrom(numeric).Draw(t, label)
	case shapeOneChar:
		return rapid.SampledFrom(oneChar).Draw(t, label)
	case shapeIBC:
		return "ibc"
	default:
		return ""
	}
}

func isLetter(c byte) bool { return (c >= 'a' && c <= 'z') || (c >= 'A' && c <= 'Z') }

const (
	keepHopLike       = 0 // no repair
	repairHopLike     = 1 // repair every draw in the class hopLikeBase (C33's recorded class)
	repairHopLikeSend = 2 // repair only draws in sendKnownClass (>= 3 segments; C42's recorded send-side class)
)

// genBase draws a base denomination. Depending on `repair`, draws that fall into a recorded class
// (second segment hop-like) are repaired BY CONSTRUCTION by inserting a plain word before that
// segment; the number of repairs is returned so that it can be counted as `excluded_known`.
func genBase(t *rapid.T, label string, repair int) (base string, excluded int) {
	n := rapid.SampledFrom([]int{1, 1, 2, 2, 2, 3, 3, 3, 4, 4, 5, 6}).Draw(t, label+"-nseg")
	segs := make([]string, n)
	for i := range segs {
		segs[i] = genSegment(t, label+"-seg")
	}
	// the SDK denom grammar wants a leading letter
	if segs[0] == "" || !isLetter(segs[0][0]) {
		segs[0] = rapid.SampledFrom([]string{"x", "u", "ab", "gamm", "factory"}).Draw(t, label+"-lead") + segs[0]
	}
	if len(segs) >= 2 && hopLike(segs[1]) && (repair == repairHopLike || (repair == repairHopLikeSend && len(segs) >= 3)) {
		w := rapid.SampledFrom([]string{"pool", "w", "lp", "share"}).Draw(t, label+"-repair")
		segs = append([]string{segs[0], w}, segs[1:]...)
		excluded++
	}
	base = strings.Join(segs, "/")
	// ... and 3..128 characters
	for len(base) < 3 {
		base += "x"
	}
	if len(base) > 128 {
		base = base[:128]
	}
	return base, excluded
}

// genAmount draws a positive amount as a decimal string: small, around 2^63 / 2^64, or huge.
func genAmount(t *rapid.T, label string) string {
	return rapid.SampledFrom([]string{
		"1", "2", "3", "7", "10", "100", "999", "1000", "123456789",
		"9223372036854775807", "9223372036854775808", "18446744073709551615", "18446744073709551616",
		"1000000000000000000", "1000000000000000000000000000000", "340282366920938463463374607431768211456",
	}).Draw(t, label)
}
