package lc

import (
	"bytes"
	"fmt"
	"sort"
	"strings"
	"testing"

	dbm "github.com/cosmos/cosmos-db"
	"pgregory.net/rapid"

	"github.com/cosmos/cosmos-sdk/store/v2/cachekv"
	"github.com/cosmos/cosmos-sdk/store/v2/dbadapter"
	"github.com/cosmos/cosmos-sdk/store/v2/prefix"
	storetypes "github.com/cosmos/cosmos-sdk/store/v2/types"

	internaltypes "github.com/cosmos/ibc-go/modules/light-clients/08-wasm/v11/internal/types"

	"github.com/cosmos/ibc-go/v11/modules/apps/callbacks/verifx/vx"
)

// C29: while a wasm client is being recovered the contract talks to a ClientRecoveryStore.
// Writes/deletes reach only the subject store (and only for "subject/"-prefixed keys), the
// substitute store is never modified, reads are routed by prefix, and keys / ranges that do
// not carry ONE consistent prefix read as empty.
//
// Model = two Go maps (subject, substitute) keyed by the inner (un-prefixed) key. The
// routing function of the model is re-implemented here with strings.HasPrefix; nothing of
// internal/types is used by the oracle.

const (
	c29Get = iota
	c29Has
	c29Set
	c29Delete
	c29Iter
	c29RevIter
)

var c29OpNames = []string{"get", "has", "set", "delete", "iterator", "reverseIterator"}

// prefixes a contract may put in front of a key. Index 0/1 are the two legal ones.
var c29Prefixes = []string{
	"subject/", "substitute/",
	"", "subject", "substitute", "subject/substitute/", "substitute/subject/",
	"Subject/", "/subject/", "subject//", "substitute//", "sub", "substitute/substitute/", "subject/subject/",
}

type c29Key struct {
	P   int    // index into c29Prefixes
	S   []byte // suffix
	Nil bool   // pass a nil slice instead (iterator bounds)
}

func (k c29Key) full() []byte {
	if k.Nil {
		return nil
	}
	return append([]byte(c29Prefixes[k.P%len(c29Prefixes)]), k.S...)
}

type c29KV struct{ K, V []byte }

type c29Op struct {
	Kind int
	K    c29Key // key, or range start
	E    c29Key // range end (iterators)
	V    []byte // value (set)
}

type c29Case struct {
	Layout int     // 0: two separate mem DBs; 1: two prefix stores over ONE mem DB (as 02-client does); 2: same below a cachekv layer
	Subj   []c29KV // initial content of the subject store (inner keys)
	Subst  []c29KV // initial content of the substitute store
	Other  []c29KV // layouts 1/2: keys of the shared DB outside both client prefixes
	Ops    []c29Op
}

var c29Alphabet = []byte{'a', 'b', 'c', '/', 0x00, 0xff}

func genC29Suffix(t *rapid.T, label string) []byte {
	// sometimes the suffix itself looks like a prefix (keys such as "subject/subject/a")
	if rapid.IntRange(0, 11).Draw(t, label+"nest") == 0 {
		return []byte(rapid.SampledFrom([]string{"subject/a", "substitute/a", "subject/", "substitute/"}).Draw(t, label+"nested"))
	}
	n := rapid.SampledFrom([]int{0, 1, 1, 1, 2, 2, 3}).Draw(t, label+"len")
	out := make([]byte, n)
	for i := range out {
		out[i] = rapid.SampledFrom(c29Alphabet).Draw(t, label+"b")
	}
	return out
}

func genC29Key(t *rapid.T, label string, same *c29Key) c29Key {
	var k c29Key
	switch w := rapid.IntRange(0, 19).Draw(t, label+"pfx"); {
	case same != nil && w < 11:
		k.P = same.P
	case w < 8:
		k.P = 0
	case w < 14:
		k.P = 1
	default:
		k.P = rapid.IntRange(2, len(c29Prefixes)-1).Draw(t, label+"odd")
	}
	k.S = genC29Suffix(t, label)
	return k
}

func genC29Content(t *rapid.T, label string) []c29KV {
	n := rapid.IntRange(0, 6).Draw(t, label+"n")
	var out []c29KV
	for i := 0; i < n; i++ {
		k := genC29Suffix(t, label+"k")
		if len(k) == 0 {
			k = []byte{'a'}
		}
		v := append([]byte(label[:2]), byte('0'+i))
		out = append(out, c29KV{K: k, V: v})
	}
	return out
}

func genC29(t *rapid.T) c29Case {
	var c c29Case
	c.Layout = rapid.IntRange(0, 2).Draw(t, "layout")
	c.Subj = genC29Content(t, "sj")
	c.Subst = genC29Content(t, "st")
	if c.Layout > 0 {
		for i, k := range []string{"clients/08-wasm-2/a", "clients/08-wasm-0", "clients/08-wasm-00/a", "a", "subject/a", "substitute/a", "clients/08-wasm-1", "zz"} {
			if rapid.Bool().Draw(t, "other") {
				c.Other = append(c.Other, c29KV{K: []byte(k), V: []byte{'o', byte('0' + i)}})
			}
		}
	}
	n := rapid.IntRange(1, 30).Draw(t, "nops")
	for i := 0; i < n; i++ {
		var op c29Op
		op.Kind = rapid.SampledFrom([]int{c29Get, c29Has, c29Set, c29Set, c29Set, c29Delete, c29Delete, c29Iter, c29Iter, c29RevIter}).Draw(t, "kind")
		op.K = genC29Key(t, "k", nil)
		if op.Kind == c29Iter || op.Kind == c29RevIter {
			op.E = genC29Key(t, "e", &op.K)
			switch rapid.IntRange(0, 15).Draw(t, "nilbound") {
			case 0:
				op.K.Nil = true
			case 1:
				op.E.Nil = true
			case 2:
				op.K.Nil, op.E.Nil = true, true
			}
			// wide ranges are the interesting ones: often make the end suffix large
			if rapid.Bool().Draw(t, "wide") {
				op.E.S = append([]byte{0xff}, op.E.S...)
			}
		}
		if op.Kind == c29Set {
			op.V = append([]byte{'w'}, byte('0'+i%10), byte('a'+i/10))
		}
		c.Ops = append(c.Ops, op)
	}
	return c
}

// c29Route is the model's routing: which store a full key addresses and the inner key.
func c29Route(full []byte) (which int, inner []byte) { // which: 0 subject, 1 substitute, -1 none
	s := string(full)
	switch {
	case full == nil:
		return -1, nil
	case strings.HasPrefix(s, "subject/"):
		return 0, []byte(s[len("subject/"):])
	case strings.HasPrefix(s, "substitute/"):
		return 1, []byte(s[len("substitute/"):])
	}
	return -1, nil
}

const (
	c29SubjPfx  = "clients/08-wasm-0/"
	c29SubstPfx = "clients/08-wasm-1/"
)

type c29World struct {
	layout       int
	subj, subst  storetypes.KVStore
	base         storetypes.KVStore // layouts 1/2
	dbA, dbB, db *dbm.MemDB
}

func c29Dump(st storetypes.KVStore) map[string]string {
	m := map[string]string{}
	it := st.Iterator(nil, nil)
	defer it.Close()
	for ; it.Valid(); it.Next() {
		m[string(it.Key())] = string(it.Value())
	}
	return m
}

func c29MapEq(a, b map[string]string) (bool, string) {
	for k, v := range a {
		if bv, ok := b[k]; !ok || bv != v {
			return false, fmt.Sprintf("key %q: %q vs %q (present=%v)", k, v, bv, ok)
		}
	}
	for k, v := range b {
		if _, ok := a[k]; !ok {
			return false, fmt.Sprintf("key %q only on one side (value %q)", k, v)
		}
	}
	return true, ""
}

type c29Pair struct{ K, V string }

func c29Range(m map[string]string, start, end []byte, reverse bool) []c29Pair {
	var keys []string
	for k := range m {
		if bytes.Compare([]byte(k), start) >= 0 && bytes.Compare([]byte(k), end) < 0 {
			keys = append(keys, k)
		}
	}
	sort.Strings(keys) // byte-wise order
	if reverse {
		for i, j := 0, len(keys)-1; i < j; i, j = i+1, j-1 {
			keys[i], keys[j] = keys[j], keys[i]
		}
	}
	out := make([]c29Pair, 0, len(keys))
	for _, k := range keys {
		out = append(out, c29Pair{k, m[k]})
	}
	return out
}

func c29PairsEq(a, b []c29Pair) bool {
	if len(a) != len(b) {
		return false
	}
	for i := range a {
		if a[i] != b[i] {
			return false
		}
	}
	return true
}

// c29KnownSig: an iterator over an illegal (unprefixed / mixed-prefix) range was not empty when
// the subject store is cachekv-backed (as every sdk.Context store is) and holds a key whose
// first byte is 0x00: the "closed" iterator was subjectStore.Iterator({0},{1}) after Close(), and a
// cachekv iterator stays Valid() after Close(). Found by this check on the original tree and fixed
// in /repo (fix: commit); the generator has no tolerance for it, and c29Known keeps the minimal
// reproduction as a plain regression case.
const c29KnownSig = "closed-iterator-still-valid-on-cachekv-leaks-subject-keys-in-00-01"

// c29Known is the deterministic minimal reproduction of that finding (part of every case so that a failure reproduces on re-execution).
func c29Known(t rapid.TB, rec *vx.Case) {
	base := cachekv.NewStore(dbadapter.Store{DB: dbm.NewMemDB()})
	subj := prefix.NewStore(base, []byte(c29SubjPfx))
	subst := prefix.NewStore(base, []byte(c29SubstPfx))
	subj.Set([]byte{0x00, 0x0b, 'c', 'l', 'i', 'e', 'n', 't'}, []byte("secret")) // cw-storage-plus style length-prefixed key
	store := internaltypes.NewClientRecoveryStore(subj, subst)
	for _, r := range [][2][]byte{{nil, []byte("subject/z")}, {[]byte("subject/a"), []byte("substitute/z")}, {[]byte("foo"), []byte("bar")}} {
		it := store.Iterator(r[0], r[1])
		if it.Valid() {
			k, v := it.Key(), it.Value()
			vx.Violatef(t, rec, "C29", c29KnownSig, "Iterator(%q,%q) on a recovery store whose cachekv-backed subject store holds key %q is Valid() and yields (%q,%q); an illegal range must read as empty", r[0], r[1], "\x00\x0bclient", k, v)
			return
		}
	}
}

func runC29(t rapid.TB, c c29Case, rec *vx.Case) {
	const id = "C29"
	c29Known(t, rec) // deterministic, microseconds; must run in every execution so that a failure reproduces
	// ---- build the two backing stores and the model
	w := c29World{layout: c.Layout}
	switch c.Layout {
	case 0:
		w.dbA, w.dbB = dbm.NewMemDB(), dbm.NewMemDB()
		w.subj, w.subst = dbadapter.Store{DB: w.dbA}, dbadapter.Store{DB: w.dbB}
	default:
		w.db = dbm.NewMemDB()
		w.base = dbadapter.Store{DB: w.db}
		if c.Layout == 2 {
			w.base = cachekv.NewStore(w.base)
		}
		w.subj = prefix.NewStore(w.base, []byte(c29SubjPfx))
		w.subst = prefix.NewStore(w.base, []byte(c29SubstPfx))
		for _, kv := range c.Other {
			w.base.Set(kv.K, kv.V)
		}
	}
	model := [2]map[string]string{{}, {}}
	for _, kv := range c.Subj {
		w.subj.Set(kv.K, kv.V)
		model[0][string(kv.K)] = string(kv.V)
	}
	for _, kv := range c.Subst {
		w.subst.Set(kv.K, kv.V)
		model[1][string(kv.K)] = string(kv.V)
	}
	substInitial := c29Dump(w.subst)
	var baseOtherInitial map[string]string
	if w.base != nil {
		baseOtherInitial = map[string]string{}
		for k, v := range c29Dump(w.base) {
			if !strings.HasPrefix(k, c29SubjPfx) && !strings.HasPrefix(k, c29SubstPfx) {
				baseOtherInitial[k] = v
			}
		}
	}
	if ok, d := c29MapEq(substInitial, model[1]); !ok {
		vx.Harnessf("prepopulation of substitute failed: %s", d)
	}

	store := internaltypes.NewClientRecoveryStore(w.subj, w.subst)

	var foreignWrites, mixedRanges, okRanges, toleratedPanics, nonEmptyReads int64
	for i, op := range c.Ops {
		name := c29OpNames[op.Kind]
		full := op.K.full()
		which, inner := c29Route(full)
		switch op.Kind {
		case c29Get, c29Has:
			var got []byte
			var has bool
			pan, msg := vx.Recover(func() {
				if op.Kind == c29Get {
					got = store.Get(full)
				} else {
					has = store.Has(full)
				}
			})
			if pan {
				if which >= 0 && len(inner) == 0 {
					toleratedPanics++ // backing store rejects the empty inner key; nothing was read
					break
				}
				vx.Harnessf("op %d %s(%q) panicked: %s", i, name, full, msg)
			}
			want, present := "", false
			if which >= 0 {
				want, present = model[which][string(inner)]
			}
			if op.Kind == c29Get {
				if string(got) != want || (present != (len(got) > 0)) {
					sig := "get-routing"
					if which < 0 {
						sig = "unprefixed-get-not-empty"
					}
					vx.Violatef(t, rec, id, sig, "op %d: Get(%q) = %q, model (store %d, inner %q) says %q present=%v", i, full, got, which, inner, want, present)
				}
				if len(got) > 0 {
					nonEmptyReads++
				}
			} else {
				if has != present {
					sig := "has-routing"
					if which < 0 {
						sig = "unprefixed-has-true"
					}
					vx.Violatef(t, rec, id, sig, "op %d: Has(%q) = %v, model (store %d, inner %q) says %v", i, full, has, which, inner, present)
				}
				if has {
					nonEmptyReads++
				}
			}
		case c29Set, c29Delete:
			pan, msg := vx.Recover(func() {
				if op.Kind == c29Set {
					store.Set(full, op.V)
				} else {
					store.Delete(full)
				}
			})
			applied := false
			if pan {
				if which >= 0 && len(inner) == 0 {
					toleratedPanics++ // empty inner key refused by the backing store: no effect expected
				} else {
					vx.Harnessf("op %d %s(%q) panicked: %s", i, name, full, msg)
				}
			} else if which == 0 {
				applied = true
				if op.Kind == c29Set {
					model[0][string(inner)] = string(op.V)
				} else {
					delete(model[0], string(inner))
				}
			}
			if which != 0 {
				foreignWrites++
				if which == 1 {
					rec.Class("write-with-substitute-prefix")
				} else {
					rec.Class("write-with-unprefixed-or-odd-key")
				}
			}
			if applied {
				rec.Add("writes_applied", 1)
			} else {
				rec.Add("writes_noop", 1)
			}
		case c29Iter, c29RevIter:
			fullEnd := op.E.full()
			whichE, innerE := c29Route(fullEnd)
			var got []c29Pair
			pan, msg := vx.Recover(func() {
				var it storetypes.Iterator
				if op.Kind == c29Iter {
					it = store.Iterator(full, fullEnd)
				} else {
					it = store.ReverseIterator(full, fullEnd)
				}
				for n := 0; it.Valid() && n < 1000; n++ {
					got = append(got, c29Pair{string(it.Key()), string(it.Value())})
					it.Next()
				}
				_ = it.Close()
			})
			consistent := which >= 0 && which == whichE
			if pan {
				if consistent && (len(inner) == 0 || len(innerE) == 0) {
					toleratedPanics++ // a raw DB refuses empty-but-non-nil bounds
					break
				}
				vx.Harnessf("op %d %s(%q,%q) panicked: %s", i, name, full, fullEnd, msg)
			}
			var want []c29Pair
			if consistent {
				okRanges++
				want = c29Range(model[which], inner, innerE, op.Kind == c29RevIter)
			} else {
				mixedRanges++
			}
			same := c29PairsEq(got, want)
			if !same {
				sig := "iterator-routing"
				if !consistent {
					sig = "mixed-or-unprefixed-range-not-empty"
				}
				vx.Violatef(t, rec, id, sig, "op %d: %s(%q,%q) yielded %q, model (stores %d/%d) says %q", i, name, full, fullEnd, got, which, whichE, want)
			}
			if len(got) > 0 {
				nonEmptyReads++
			}
		}

		// ---- after every op: substitute untouched, subject == model, nothing else touched
		if ok, d := c29MapEq(c29Dump(w.subst), substInitial); !ok {
			vx.Violatef(t, rec, id, "substitute-store-modified", "after op %d %s(%q): substitute store changed: %s", i, name, full, d)
		}
		if ok, d := c29MapEq(c29Dump(w.subj), model[0]); !ok {
			sig := "subject-store-differs-from-model"
			if which != 0 && (op.Kind == c29Set || op.Kind == c29Delete) {
				sig = "non-subject-key-write-reached-subject"
			}
			vx.Violatef(t, rec, id, sig, "after op %d %s(%q): subject store differs from model: %s", i, name, full, d)
		}
		if w.base != nil {
			other := map[string]string{}
			for k, v := range c29Dump(w.base) {
				if !strings.HasPrefix(k, c29SubjPfx) && !strings.HasPrefix(k, c29SubstPfx) {
					other[k] = v
				}
			}
			if ok, d := c29MapEq(other, baseOtherInitial); !ok {
				vx.Violatef(t, rec, id, "write-outside-both-client-stores", "after op %d %s(%q): keys outside both client prefixes changed: %s", i, name, full, d)
			}
		}
	}

	rec.Class("layout-%d", c.Layout)
	if mixedRanges > 0 {
		rec.Class("range-mixed-or-unprefixed")
	}
	if okRanges > 0 {
		rec.Class("range-consistent-prefix")
	}
	if toleratedPanics > 0 {
		rec.Class("empty-inner-key-refused-by-backing-store")
	}
	rec.Add("foreign_writes", foreignWrites)
	rec.Add("mixed_ranges", mixedRanges)
	rec.Add("consistent_ranges", okRanges)
	rec.Add("nonempty_reads", nonEmptyReads)
	rec.Add("tolerated_panics", toleratedPanics)
	rec.Add("ops", int64(len(c.Ops)))
	rec.NonTrivialIf(foreignWrites > 0)
}

func TestC29(t *testing.T) {
	vx.Check(t, vx.Prop[c29Case]{
		ID:        "C29",
		Rule:      "cases = two randomly pre-populated backing stores (separate mem DBs, or two prefix stores over one DB, optionally below cachekv) + 1..30 get/has/set/delete/iterator/reverseIterator ops over keys {subject/, substitute/, none, look-alikes, nested} x suffixes; non-trivial = >=1 set/delete whose key is substitute/-prefixed or carries no legal prefix; distinct by full case encoding",
		MinNTFrac: 0.5,
		Assumptions: []string{
			"a panic of the backing store on an EMPTY inner key (key exactly 'subject/' or 'substitute/') is tolerated and must leave both stores unchanged",
		},
		Gen: genC29,
		Run: runC29,
	})
}
