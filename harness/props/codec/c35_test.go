package codec

import (
	"bytes"
	"encoding/binary"
	"fmt"
	"math/big"
	"strings"
	"sync"
	"testing"
	"unicode/utf8"

	"pgregory.net/rapid"

	sdkmath "cosmossdk.io/math"

	gmptypes "github.com/cosmos/ibc-go/v11/modules/apps/27-gmp/types"
	transfertypes "github.com/cosmos/ibc-go/v11/modules/apps/transfer/types"
	"github.com/cosmos/ibc-go/v11/modules/light-clients/attestations"

	"github.com/cosmos/ibc-go/v11/modules/apps/callbacks/verifx/vx"
)

// C35: decoding the JSON / protobuf / Solidity-ABI encoding of a valid ICS-20 packet data
// value returns the same transfer; protobuf decoding rejects unknown fields; decoding
// arbitrary bytes never panics; GMP packet data / acks and attestation ABI data have the
// same round-trip and no-panic guarantees.

const (
	encJSON  = transfertypes.EncodingJSON
	encProto = transfertypes.EncodingProtobuf
	encABI   = transfertypes.EncodingABI

	nanosPerSecond = 1_000_000_000

	// sigABIRadix (fixed by fixes/C35-ics20-abi-amount-radix.diff): the ABI encoder read the
	// amount in base 10 while validation and ToCoin read it in base 0 (Go prefix rules), so
	// "010" was 8 for ICS-20 and 10 after an ABI trip. Kept as a regression label.
	sigABIRadix = "ics20-abi-amount-radix"
)

var allEncs = []string{encJSON, encProto, encABI}

type counters map[string]int64

func (c counters) flush(rec *vx.Case) {
	for k, v := range c {
		rec.Add(k, v)
	}
}

// abiRadixShape: the spelling is read differently in base 10 and in base 0.
func abiRadixShape(amount string) bool {
	a, okA := new(big.Int).SetString(amount, 10)
	b, okB := new(big.Int).SetString(amount, 0)
	return okA && okB && a.Cmp(b) != 0
}

// ---- value-level oracles (shared by the generated-value test and the byte-level tests) ----

// ics20Value checks the round trip of one ICS-20 value under every encoding. Values that
// ICS-20 itself rejects are not in the domain.
func ics20Value(d transfertypes.FungibleTokenPacketData, out *findings, m counters) {
	if d.ValidateBasic() != nil {
		m["ics20_value_invalid"]++
		return
	}
	for _, s := range []string{d.Denom, d.Amount, d.Sender, d.Receiver, d.Memo} {
		if !utf8.ValidString(s) {
			m["ics20_value_not_utf8"]++ // not representable in JSON / Solidity string; outside the domain
			return
		}
	}
	want, _ := sdkmath.NewIntFromString(d.Amount)
	for _, enc := range allEncs {
		var bz []byte
		var err error
		if !noPanic(out, "transfer.MarshalPacketData/"+enc, func() string { return fmt.Sprintf("%+v", d) }, func() { bz, err = transfertypes.MarshalPacketData(d, transfertypes.V1, enc) }) {
			continue
		}
		if err != nil {
			if _, dec := new(big.Int).SetString(d.Amount, 10); enc == encABI && !dec {
				m["ics20_abi_amount_spelling_not_representable"]++ // 0x.., 0b.., 1_0: valid for ICS-20, no uint256 decimal spelling
				continue
			}
			out.addf("ics20-encode-fails/"+enc, "valid ICS-20 value %+v cannot be encoded as %s: %v", d, enc, err)
			continue
		}
		var r transfertypes.InternalTransferRepresentation
		if !noPanic(out, "transfer.UnmarshalPacketData/"+enc, func() string { return short(bz) }, func() { r, err = transfertypes.UnmarshalPacketData(bz, transfertypes.V1, enc) }) {
			continue
		}
		if err != nil {
			out.addf("ics20-own-encoding-rejected/"+enc, "%s encoding of valid value %+v does not decode: %v", enc, d, err)
			continue
		}
		m["ics20_roundtrips"]++
		if got := r.Token.Denom.Path(); got != d.Denom {
			out.addf("ics20-denom-changed/"+enc, "%s round trip changed the denomination %q -> %q", enc, d.Denom, got)
		}
		got, ok := sdkmath.NewIntFromString(r.Token.Amount)
		if !ok || !got.Equal(want) {
			sig := "ics20-amount-changed/" + enc
			if enc == encABI && abiRadixShape(d.Amount) {
				sig = sigABIRadix
			}
			out.addf(sig, "%s round trip changed the amount: %q (= %s for ICS-20 validation and ToCoin) came back as %q (= %s)", enc, d.Amount, want, r.Token.Amount, got)
		}
		if r.Sender != d.Sender || r.Receiver != d.Receiver {
			out.addf("ics20-address-changed/"+enc, "%s round trip changed sender/receiver %q/%q -> %q/%q", enc, d.Sender, d.Receiver, r.Sender, r.Receiver)
		}
		if r.Memo != d.Memo {
			out.addf("ics20-memo-changed/"+enc, "%s round trip changed the memo %q -> %q", enc, d.Memo, r.Memo)
		}
	}
}

func gmpValue(d gmptypes.GMPPacketData, out *findings, m counters) {
	if d.ValidateBasic() != nil {
		m["gmp_value_invalid"]++
		return
	}
	for _, s := range []string{d.Sender, d.Receiver, d.Memo} {
		if !utf8.ValidString(s) {
			m["gmp_value_not_utf8"]++
			return
		}
	}
	for _, enc := range allEncs {
		var bz []byte
		var err error
		if !noPanic(out, "gmp.MarshalPacketData/"+enc, func() string { return fmt.Sprintf("%+v", d) }, func() { bz, err = gmptypes.MarshalPacketData(&d, gmptypes.Version, enc) }) {
			continue
		}
		if err != nil {
			out.addf("gmp-encode-fails/"+enc, "valid GMP packet data %+v cannot be encoded as %s: %v", d, enc, err)
			continue
		}
		var r *gmptypes.GMPPacketData
		if !noPanic(out, "gmp.UnmarshalPacketData/"+enc, func() string { return short(bz) }, func() { r, err = gmptypes.UnmarshalPacketData(bz, gmptypes.Version, enc) }) {
			continue
		}
		if err != nil || r == nil {
			out.addf("gmp-own-encoding-rejected/"+enc, "%s encoding of valid GMP packet data %+v does not decode: %v", enc, d, err)
			continue
		}
		m["gmp_roundtrips"]++
		if r.Sender != d.Sender || r.Receiver != d.Receiver || r.Memo != d.Memo || !bytes.Equal(r.Salt, d.Salt) || !bytes.Equal(r.Payload, d.Payload) {
			out.addf("gmp-value-changed/"+enc, "%s round trip changed GMP packet data %+v -> %+v", enc, d, *r)
		}
	}
}

func gmpAckValue(a gmptypes.Acknowledgement, out *findings, m counters) {
	for _, enc := range allEncs {
		var bz []byte
		var err error
		if !noPanic(out, "gmp.MarshalAcknowledgement/"+enc, func() string { return fmt.Sprintf("%x", a.Result) }, func() { bz, err = gmptypes.MarshalAcknowledgement(&a, gmptypes.Version, enc) }) {
			continue
		}
		if err != nil {
			out.addf("gmpack-encode-fails/"+enc, "GMP acknowledgement %x cannot be encoded as %s: %v", a.Result, enc, err)
			continue
		}
		var r *gmptypes.Acknowledgement
		if !noPanic(out, "gmp.UnmarshalAcknowledgement/"+enc, func() string { return short(bz) }, func() { r, err = gmptypes.UnmarshalAcknowledgement(bz, gmptypes.Version, enc) }) {
			continue
		}
		if err != nil || r == nil {
			out.addf("gmpack-own-encoding-rejected/"+enc, "%s encoding of GMP acknowledgement %x does not decode: %v", enc, a.Result, err)
			continue
		}
		m["gmpack_roundtrips"]++
		if !bytes.Equal(r.Result, a.Result) {
			out.addf("gmpack-value-changed/"+enc, "%s round trip changed GMP acknowledgement %x -> %x", enc, a.Result, r.Result)
		}
	}
}

// attStateValue: representable domain = timestamps in whole seconds.
func attStateValue(s attestations.StateAttestation, out *findings, m counters) {
	if s.Timestamp%nanosPerSecond != 0 {
		m["att_state_not_whole_seconds"]++
		return
	}
	var bz []byte
	var err error
	if !noPanic(out, "attestations.StateAttestation.ABIEncode", func() string { return fmt.Sprintf("%+v", s) }, func() { bz, err = s.ABIEncode() }) {
		return
	}
	if err != nil {
		out.addf("att-state-encode-fails", "state attestation %+v cannot be encoded: %v", s, err)
		return
	}
	var r *attestations.StateAttestation
	if !noPanic(out, "attestations.ABIDecodeStateAttestation", func() string { return short(bz) }, func() { r, err = attestations.ABIDecodeStateAttestation(bz) }) {
		return
	}
	if err != nil || r == nil {
		out.addf("att-state-own-encoding-rejected", "encoding of state attestation %+v does not decode: %v", s, err)
		return
	}
	m["att_state_roundtrips"]++
	if *r != s {
		out.addf("att-state-value-changed", "round trip changed state attestation %+v -> %+v", s, *r)
	}
}

// attPacketValue: representable domain = 32-byte paths and commitments.
func attPacketValue(p attestations.PacketAttestation, out *findings, m counters) {
	for _, pc := range p.Packets {
		if len(pc.Path) != 32 || len(pc.Commitment) != 32 {
			m["att_packet_not_32_bytes"]++
			return
		}
	}
	var bz []byte
	var err error
	if !noPanic(out, "attestations.PacketAttestation.ABIEncode", func() string { return fmt.Sprintf("%+v", p) }, func() { bz, err = p.ABIEncode() }) {
		return
	}
	if err != nil {
		out.addf("att-packet-encode-fails", "packet attestation %+v cannot be encoded: %v", p, err)
		return
	}
	var r *attestations.PacketAttestation
	if !noPanic(out, "attestations.ABIDecodePacketAttestation", func() string { return short(bz) }, func() { r, err = attestations.ABIDecodePacketAttestation(bz) }) {
		return
	}
	if err != nil || r == nil {
		out.addf("att-packet-own-encoding-rejected", "encoding of packet attestation %+v does not decode: %v", p, err)
		return
	}
	m["att_packet_roundtrips"]++
	same := r.Height == p.Height && len(r.Packets) == len(p.Packets)
	for i := 0; same && i < len(p.Packets); i++ {
		same = bytes.Equal(r.Packets[i].Path, p.Packets[i].Path) && bytes.Equal(r.Packets[i].Commitment, p.Packets[i].Commitment)
	}
	if !same {
		out.addf("att-packet-value-changed", "round trip changed packet attestation %+v -> %+v", p, *r)
	}
	for _, pc := range p.Packets {
		pc := pc
		noPanic(out, "attestations.PacketCompact.ABIEncode", func() string { return fmt.Sprintf("%+v", pc) }, func() { _, _ = pc.ABIEncode() })
	}
}

// ---- generated valid values ----------------------------------------------------------------

type c35Unknown struct {
	Field uint32 // field number (not one the message defines)
	Wire  int    // 0 varint, 1 fixed64, 2 bytes, 5 fixed32
	Val   []byte
	Front bool // prepend instead of append
}

type c35Case struct {
	Kind                                  string // ics20 | gmp | gmpack | attstate | attpacket | known-demo
	Denom, Amount, Sender, Receiver, Memo string
	Salt, Payload, Result                 []byte
	Height, TsSec                         uint64
	Packets                               [][]byte // 64 bytes each: path || commitment
	Unknown                               c35Unknown
}

var textPool = []string{"cosmos1xyz", "0x000000000000000000000000000000000000dEaD", "<script>&'\"</script>", "  ", "\x00", "a\\b\"c", "日本語", "😀", "{\"forward\":{}}", " x ", "\t", "é", " ", "null", "�"}

func genText(t *rapid.T, label string, maxLen int) string {
	switch rapid.IntRange(0, 5).Draw(t, label+"k") {
	case 0:
		return rapid.SampledFrom(textPool).Draw(t, label+"pool")
	case 1:
		return strings.Repeat(rapid.SampledFrom([]string{"a", "é", "😀", "\""}).Draw(t, label+"rep"), rapid.IntRange(1, maxLen/4).Draw(t, label+"n"))
	case 2:
		return rapid.StringN(0, 40, -1).Draw(t, label+"uni") // arbitrary valid unicode
	default:
		return genFromAlphabet(t, idAlphabet, 1, 44, label+"addr")
	}
}

func genNonBlank(t *rapid.T, label string, maxLen int) string {
	s := genText(t, label, maxLen)
	if strings.TrimSpace(s) == "" {
		return "s" + s
	}
	return s
}

// genAmount draws a positive integer below 2^256 and one of the spellings ICS-20 accepts.
func genAmount(t *rapid.T) string {
	var n *big.Int
	switch rapid.IntRange(0, 4).Draw(t, "amtk") {
	case 0:
		n = new(big.Int).SetUint64(rapid.Uint64Range(1, 1000).Draw(t, "amtsmall"))
	case 1:
		n = new(big.Int).SetUint64(vx.U64().Draw(t, "amt64"))
	case 2:
		sh := rapid.IntRange(1, 256).Draw(t, "amtshift")
		n = new(big.Int).Lsh(big.NewInt(1), uint(sh))
		n.Add(n, big.NewInt(int64(rapid.IntRange(-2, 2).Draw(t, "amtdelta"))))
	default:
		n = new(big.Int).SetBytes(rapid.SliceOfN(rapid.Byte(), 1, 32).Draw(t, "amtbytes"))
	}
	max := new(big.Int).Sub(new(big.Int).Lsh(big.NewInt(1), 256), big.NewInt(1))
	if n.Sign() <= 0 {
		n = big.NewInt(1)
	}
	if n.Cmp(max) > 0 {
		n = max
	}
	switch rapid.IntRange(0, 19).Draw(t, "spelling") {
	case 0:
		return "+" + n.String()
	case 1:
		return "0x" + n.Text(16)
	case 2:
		return "0" + n.Text(8) // octal spelling: reads differently in base 10 (the fixed ABI radix defect)
	case 3:
		return "0b" + n.Text(2)
	default:
		return n.String()
	}
}

func genDenomPath(t *rapid.T) string {
	if rapid.Bool().Draw(t, "denompool") {
		return rapid.SampledFrom([]string{"uatom", "transfer/channel-0/uatom", "transfer/channel-1/transfer/channel-0/gamm/pool/1", "gamm/pool-1", "ibc/27394FB092D2ECCD56123C74F36E4C1F926001CEADA9CA97EA622B25F41E5EB2",
			"factory/osmo1abc/sub", "a/b/c", "erc20/0xdAC17F958D2ee523a2206206994597C13D831ec7", "transfer/08-wasm-3/x"}).Draw(t, "denom")
	}
	c := genC34(t)
	p := strings.Join(c.Segs, "/")
	probe := transfertypes.FungibleTokenPacketData{Denom: p, Amount: "1", Sender: "s", Receiver: "r"}
	if !utf8.ValidString(p) || probe.ValidateBasic() != nil {
		return "uatom" // constructed fallback: the value domain is "valid ICS-20 packet data"
	}
	return p
}

func genC35(t *rapid.T) c35Case {
	var c c35Case
	c.Kind = rapid.SampledFrom([]string{"ics20", "ics20", "ics20", "gmp", "gmp", "gmpack", "attstate", "attpacket", "known-demo"}).Draw(t, "kind")
	if c.Kind == "known-demo" && rapid.IntRange(0, 5).Draw(t, "demo-rare") != 0 {
		c.Kind = "ics20"
	}
	switch c.Kind {
	case "ics20":
		c.Denom = genDenomPath(t)
		c.Amount = genAmount(t)
		c.Sender = genNonBlank(t, "sender", 2000)
		c.Receiver = genNonBlank(t, "receiver", 2000)
		if rapid.Bool().Draw(t, "hasmemo") {
			c.Memo = genText(t, "memo", 20000)
		}
	case "gmp":
		c.Sender = genNonBlank(t, "sender", 2000)
		if rapid.Bool().Draw(t, "hasrecv") {
			c.Receiver = genText(t, "receiver", 2000)
		}
		c.Salt = rapid.SliceOfN(rapid.Byte(), 0, 32).Draw(t, "salt")
		c.Payload = rapid.SliceOfN(rapid.Byte(), 0, rapid.SampledFrom([]int{0, 1, 31, 32, 33, 200, 5000}).Draw(t, "paylen")).Draw(t, "payload")
		if rapid.Bool().Draw(t, "hasmemo") {
			c.Memo = genText(t, "memo", 20000)
		}
	case "gmpack":
		c.Result = rapid.SliceOfN(rapid.Byte(), 0, rapid.SampledFrom([]int{0, 1, 31, 32, 33, 300}).Draw(t, "reslen")).Draw(t, "result")
	case "attstate":
		c.Height = vx.U64().Draw(t, "height")
		c.TsSec = vx.U64().Draw(t, "tssec") % (^uint64(0)/nanosPerSecond + 1)
	case "attpacket":
		c.Height = vx.U64().Draw(t, "height")
		n := rapid.IntRange(0, 5).Draw(t, "npk")
		for i := 0; i < n; i++ {
			c.Packets = append(c.Packets, rapid.SliceOfN(rapid.Byte(), 64, 64).Draw(t, "pk"))
		}
	}
	c.Unknown = c35Unknown{
		Field: rapid.SampledFrom([]uint32{6, 7, 8, 15, 16, 100, 1023, 1024, 2047, 2048, 1 << 20, 1<<29 - 1}).Draw(t, "ufield"),
		Wire:  rapid.SampledFrom([]int{0, 1, 2, 5}).Draw(t, "uwire"),
		Val:   rapid.SliceOfN(rapid.Byte(), 0, 12).Draw(t, "uval"),
		Front: rapid.Bool().Draw(t, "ufront"),
	}
	return c
}

// unknownField renders a well-formed protobuf field the message does not define.
func (u c35Unknown) bytes() []byte {
	out := binary.AppendUvarint(nil, uint64(u.Field)<<3|uint64(u.Wire))
	switch u.Wire {
	case 0:
		v := uint64(0)
		for _, b := range u.Val {
			v = v<<8 | uint64(b)
		}
		out = binary.AppendUvarint(out, v)
	case 1:
		out = append(out, append(append([]byte(nil), u.Val...), make([]byte, 8)...)[:8]...)
	case 5:
		out = append(out, append(append([]byte(nil), u.Val...), make([]byte, 4)...)[:4]...)
	default:
		out = binary.AppendUvarint(out, uint64(len(u.Val)))
		out = append(out, u.Val...)
	}
	return out
}

func (u c35Unknown) inject(bz []byte) []byte {
	if u.Front {
		return cat(u.bytes(), bz)
	}
	return cat(bz, u.bytes())
}

func runC35(t rapid.TB, c c35Case, rec *vx.Case) {
	const id = "C35"
	var out findings
	m := counters{}
	rec.Class(c.Kind)
	switch c.Kind {
	case "known-demo":
		// deterministic regression case of the fixed ABI radix defect (minimal input)
		ics20Value(transfertypes.FungibleTokenPacketData{Denom: "uatom", Amount: "010", Sender: "a", Receiver: "b"}, &out, m)
	case "ics20":
		d := transfertypes.FungibleTokenPacketData{Denom: c.Denom, Amount: c.Amount, Sender: c.Sender, Receiver: c.Receiver, Memo: c.Memo}
		if d.ValidateBasic() != nil {
			// amount spellings such as "0" + octal digits of a number containing 8/9 cannot occur; anything else is a generator bug
			vx.Harnessf("generator produced an ICS-20 value that ValidateBasic rejects: %+v", d)
		}
		ics20Value(d, &out, m)
		// protobuf with an unknown field must be rejected
		bz, err := transfertypes.MarshalPacketData(d, transfertypes.V1, encProto)
		if err == nil {
			bad := c.Unknown.inject(bz)
			var derr error
			if noPanic(&out, "transfer.UnmarshalPacketData/"+encProto, func() string { return short(bad) }, func() { _, derr = transfertypes.UnmarshalPacketData(bad, transfertypes.V1, encProto) }) && derr == nil {
				out.addf("ics20-proto-unknown-field-accepted", "protobuf packet data with unknown field %d (wire type %d, front=%v) was accepted: %x", c.Unknown.Field, c.Unknown.Wire, c.Unknown.Front, bad)
			}
			m["unknown_field_probes"]++
		}
		if c.Amount != canonicalDecimal(c.Amount) {
			rec.Class("ics20-noncanonical-amount-spelling")
		}
		if len(c.Amount) > 60 {
			rec.Class("ics20-amount-near-2^256")
		}
	case "gmp":
		d := gmptypes.GMPPacketData{Sender: c.Sender, Receiver: c.Receiver, Salt: c.Salt, Payload: c.Payload, Memo: c.Memo}
		if d.ValidateBasic() != nil {
			vx.Harnessf("generator produced a GMP value that ValidateBasic rejects: %+v", d)
		}
		gmpValue(d, &out, m)
		if bz, err := gmptypes.MarshalPacketData(&d, gmptypes.Version, encProto); err == nil {
			bad := c.Unknown.inject(bz)
			var derr error
			if noPanic(&out, "gmp.UnmarshalPacketData/"+encProto, func() string { return short(bad) }, func() { _, derr = gmptypes.UnmarshalPacketData(bad, gmptypes.Version, encProto) }) && derr == nil {
				m["gmp_unknown_field_accepted"]++ // measured only: the statement requires rejection for ICS-20
			}
		}
	case "gmpack":
		gmpAckValue(gmptypes.Acknowledgement{Result: c.Result}, &out, m)
	case "attstate":
		attStateValue(attestations.StateAttestation{Height: c.Height, Timestamp: c.TsSec * nanosPerSecond}, &out, m)
	case "attpacket":
		p := attestations.PacketAttestation{Height: c.Height}
		for _, pk := range c.Packets {
			p.Packets = append(p.Packets, attestations.PacketCompact{Path: pk[:32], Commitment: pk[32:64]})
		}
		attPacketValue(p, &out, m)
	}
	m.flush(rec)
	out.report(t, rec, id)

	nonASCII := false
	long := false
	for _, s := range []string{c.Denom, c.Sender, c.Receiver, c.Memo} {
		for i := 0; i < len(s); i++ {
			if s[i] >= 0x80 || s[i] < 0x20 || s[i] == '"' || s[i] == '\\' || s[i] == '<' {
				nonASCII = true
			}
		}
		if len(s) > 256 {
			long = true
		}
	}
	if nonASCII {
		rec.Class("non-ascii-or-escaped-text")
	}
	if long || len(c.Payload) > 256 || len(c.Result) > 256 {
		rec.Class("long-field")
	}
	rec.NonTrivialIf(nonASCII || long || len(c.Payload) > 32 || len(c.Result) > 32 || len(c.Packets) > 0 || c.Height > 1<<32 || len(c.Amount) > 20)
}

func canonicalDecimal(s string) string {
	n, ok := new(big.Int).SetString(s, 0)
	if !ok {
		return ""
	}
	return n.String()
}

func TestC35(t *testing.T) {
	vx.Check(t, vx.Prop[c35Case]{
		ID: "C35",
		Rule: "generated valid values: ICS-20 packet data (denom paths from the C34 generator, positive amounts up to 2^256-1 in every spelling ValidateBasic accepts, unicode/escaped/long text), GMP packet data within its limits, GMP acks, " +
			"attestation state (whole seconds) and packet (32-byte words) data; each is encoded and decoded under every encoding and compared field by field (amount as integer); ICS-20/GMP protobuf gets a well-formed unknown field injected; " +
			"non-trivial = text with non-ASCII/escaped characters or long fields, big amounts/heights, non-empty packet lists; distinct by full case",
		MinNTFrac: 0.3,
		Gen:       genC35,
		Run:       runC35,
	})
}

// ---- byte-level oracle (shared with the native fuzz targets) -------------------------------

var c35Targets = []string{
	"ics20/json", "ics20/proto", "ics20/abi", "ics20/default",
	"gmp/json", "gmp/proto", "gmp/abi", "gmpack/json", "gmpack/proto", "gmpack/abi",
	"att/state", "att/packet",
}

func encOf(target string) string {
	switch target[strings.Index(target, "/")+1:] {
	case "json":
		return encJSON
	case "proto":
		return encProto
	case "abi":
		return encABI
	}
	return ""
}

// c35Decode feeds arbitrary bytes to one decoder: it must not panic, and whatever value
// it returns is a valid value whose round trip must hold like for any generated value.
func c35Decode(target string, data []byte, m counters) findings {
	var out findings
	in := func() string { return short(data) }
	switch {
	case strings.HasPrefix(target, "ics20/"):
		var r transfertypes.InternalTransferRepresentation
		var err error
		if !noPanic(&out, "transfer.UnmarshalPacketData/"+encOf(target), in, func() { r, err = transfertypes.UnmarshalPacketData(data, transfertypes.V1, encOf(target)) }) {
			return out
		}
		if err != nil {
			m["decode_rejected"]++
			return out
		}
		m["decode_accepted"]++
		ics20Value(transfertypes.FungibleTokenPacketData{Denom: r.Token.Denom.Path(), Amount: r.Token.Amount, Sender: r.Sender, Receiver: r.Receiver, Memo: r.Memo}, &out, m)
	case strings.HasPrefix(target, "gmp/"):
		var r *gmptypes.GMPPacketData
		var err error
		if !noPanic(&out, "gmp.UnmarshalPacketData/"+encOf(target), in, func() { r, err = gmptypes.UnmarshalPacketData(data, gmptypes.Version, encOf(target)) }) {
			return out
		}
		if err != nil || r == nil {
			m["decode_rejected"]++
			return out
		}
		m["decode_accepted"]++
		gmpValue(*r, &out, m)
	case strings.HasPrefix(target, "gmpack/"):
		var r *gmptypes.Acknowledgement
		var err error
		if !noPanic(&out, "gmp.UnmarshalAcknowledgement/"+encOf(target), in, func() { r, err = gmptypes.UnmarshalAcknowledgement(data, gmptypes.Version, encOf(target)) }) {
			return out
		}
		if err != nil || r == nil {
			m["decode_rejected"]++
			return out
		}
		m["decode_accepted"]++
		gmpAckValue(*r, &out, m)
	case target == "att/state":
		var r *attestations.StateAttestation
		var err error
		if !noPanic(&out, "attestations.ABIDecodeStateAttestation", in, func() { r, err = attestations.ABIDecodeStateAttestation(data) }) {
			return out
		}
		if err != nil || r == nil {
			m["decode_rejected"]++
			return out
		}
		m["decode_accepted"]++
		attStateValue(*r, &out, m)
	case target == "att/packet":
		var r *attestations.PacketAttestation
		var err error
		if !noPanic(&out, "attestations.ABIDecodePacketAttestation", in, func() { r, err = attestations.ABIDecodePacketAttestation(data) }) {
			return out
		}
		if err != nil || r == nil {
			m["decode_rejected"]++
			return out
		}
		m["decode_accepted"]++
		attPacketValue(*r, &out, m)
	default:
		panic(vx.HarnessError{Msg: "unknown C35 target " + target})
	}
	return out
}

// c35Seeds: valid encodings of a few fixed values plus hostile constants.
func c35Seeds(target string) [][]byte {
	var seeds [][]byte
	add := func(b []byte, err error) {
		if err == nil {
			seeds = append(seeds, b)
		}
	}
	enc := encOf(target)
	if target == "ics20/default" {
		enc = encJSON
	}
	switch {
	case strings.HasPrefix(target, "ics20/"):
		for _, d := range []transfertypes.FungibleTokenPacketData{
			{Denom: "uatom", Amount: "1", Sender: "a", Receiver: "b"},
			{Denom: "transfer/channel-0/gamm/pool/1", Amount: "115792089237316195423570985008687907853269984665640564039457584007913129639935", Sender: "cosmos1xyz", Receiver: "0xdead", Memo: `{"forward":{"receiver":"x","port":"transfer","channel":"channel-0"}}`},
			{Denom: "日本/channel-1/é", Amount: "+7", Sender: " ", Receiver: "<&>", Memo: strings.Repeat("😀", 40)},
		} {
			add(transfertypes.MarshalPacketData(d, transfertypes.V1, enc))
		}
	case strings.HasPrefix(target, "gmp/"):
		for _, d := range []gmptypes.GMPPacketData{
			{Sender: "a"},
			{Sender: "cosmos1xyz", Receiver: "0xdead", Salt: bytes.Repeat([]byte{7}, 32), Payload: bytes.Repeat([]byte{0xfe}, 70), Memo: "日本語\"\\"},
		} {
			d := d
			add(gmptypes.MarshalPacketData(&d, gmptypes.Version, enc))
		}
	case strings.HasPrefix(target, "gmpack/"):
		for _, a := range []gmptypes.Acknowledgement{{}, {Result: []byte{1}}, {Result: bytes.Repeat([]byte{0xab}, 65)}} {
			a := a
			add(gmptypes.MarshalAcknowledgement(&a, gmptypes.Version, enc))
		}
	case target == "att/state":
		for _, s := range []attestations.StateAttestation{{}, {Height: 100, Timestamp: 1234567890 * nanosPerSecond}, {Height: ^uint64(0), Timestamp: (^uint64(0) / nanosPerSecond) * nanosPerSecond}} {
			s := s
			add(s.ABIEncode())
		}
		seeds = append(seeds, cat(word(1), wordMax()), cat(wordMax(), word(1)), cat(word(1), word(^uint64(0))), cat(word(1), word(1<<63)))
	case target == "att/packet":
		for _, p := range []attestations.PacketAttestation{{}, {Height: 7, Packets: []attestations.PacketCompact{{Path: bytes.Repeat([]byte{1}, 32), Commitment: bytes.Repeat([]byte{2}, 32)}}},
			{Height: ^uint64(0), Packets: []attestations.PacketCompact{{Path: make([]byte, 32), Commitment: make([]byte, 32)}, {Path: bytes.Repeat([]byte{0xff}, 32), Commitment: bytes.Repeat([]byte{0xee}, 32)}}}} {
			p := p
			add(p.ABIEncode())
		}
		// tuple offset, height, array offset, then absurd element counts
		seeds = append(seeds, cat(word(0x20), word(1), word(0x40), wordMax()), cat(word(0x20), word(1), word(0x40), word(1<<40)), cat(word(0x20), word(1), word(0x40), word(1<<31), make([]byte, 64)),
			cat(word(0x20), word(1), wordMax(), word(1)), cat(wordMax(), word(1), word(0x40), word(0)))
	}
	switch enc {
	case encJSON:
		for _, s := range []string{``, `{}`, `null`, `[]`, `""`, `0`, `{"denom":null}`, `{"amount":1}`, `{"denom":"a","amount":"1","sender":"a","receiver":"b","extra":1}`, `{"sender":"a","salt":"!!"}`,
			`{"denom":"a","amount":"010","sender":"a","receiver":"b"}`, `{"denom":"a","amount":"0x10","sender":"a","receiver":"b"}`, `{"denom":"a","amount":"1","sender":"a","receiver":"b"}{}`,
			`{"denom":"a","denom":"b","amount":"1","sender":"a","receiver":"b"}`, `{"DENOM":"a","Amount":"1","sender":"a","receiver":"b"}`, `{"result":"AQ=="}`, `{"result":"AQ"}`, `{"result":null}`,
			strings.Repeat("[", 10000), strings.Repeat(`{"a":`, 10000), `{"denom":"\ud800","amount":"1","sender":"a","receiver":"b"}`, "{\"denom\":\"\xff\",\"amount\":\"1\",\"sender\":\"a\",\"receiver\":\"b\"}",
			` {"denom":"a","amount":"1","sender":"a","receiver":"b"} `, `{"denom":"a","amount":"1e3","sender":"a","receiver":"b"}`} {
			seeds = append(seeds, []byte(s))
		}
	case encProto:
		seeds = append(seeds, []byte{}, []byte{0x0a}, []byte{0x0a, 0xff, 0xff, 0xff, 0xff, 0x0f}, []byte{0x0a, 0xff, 0xff, 0xff, 0xff, 0xff, 0xff, 0xff, 0xff, 0xff, 0x01}, []byte{0x08, 0x01}, []byte{0x0b}, []byte{0x0c},
			[]byte{0x0a, 0x01, 0xff}, []byte{0x32, 0x00}, []byte{0x0a, 0x01, 'a', 0x0a, 0x01, 'b'}, []byte{0x80, 0x80, 0x80, 0x80, 0x80, 0x80, 0x80, 0x80, 0x80, 0x80, 0x01}, []byte{0xfa, 0xff, 0xff, 0xff, 0x0f, 0x00})
	case encABI:
		seeds = append(seeds, []byte{}, word(0x20), cat(word(0x20), wordMax()), cat(word(0x20), word(0xa0), word(0xa0), word(0xa0), word(1), word(0xa0), wordMax()),
			cat(word(0x20), word(0xa0), word(0xe0), word(0x120), wordMax(), word(0x160), word(1), word(0x61), word(1), word(0x62), word(1), word(0x63), word(0)),
			cat(word(0x20), word(0), word(0), word(0), word(0), word(0)), cat(word(0x20), word(0x20), word(0x20)), cat(wordMax(), wordMax(), wordMax(), wordMax(), wordMax(), wordMax()),
			cat(word(0x20), word(0x20), word(1<<62)), cat(word(0x20), word(0x20), word(1<<31), make([]byte, 32)))
	}
	return seeds
}

var (
	c35TargetsOnce sync.Once
	c35TargetList  []byteTarget
)

// fuzz target -> decoders it covers (the first data byte selects the decoder)
var c35FuzzTargets = map[string][]string{
	"FuzzC35Transfer":    {"ics20/json", "ics20/proto", "ics20/default"},
	"FuzzC35TransferABI": {"ics20/abi"},
	"FuzzC35GMP":         {"gmp/json", "gmp/proto", "gmp/abi", "gmpack/json", "gmpack/proto", "gmpack/abi"},
	"FuzzC35Attestation": {"att/state", "att/packet"},
}

func fuzzSeeds(id string, table map[string][]string, seedsOf func(string) [][]byte, fuzzName string) [][]byte {
	var out [][]byte
	for i, tg := range table[fuzzName] {
		for _, s := range seedsOf(tg) {
			out = append(out, cat([]byte{byte(i)}, s))
		}
	}
	return out
}

// targetsWithCorpus builds, per decoder, seeds + every saved corpus entry of the fuzz
// target that covers it (selector byte stripped).
func targetsWithCorpus(id string, names []string, table map[string][]string, seedsOf func(string) [][]byte) []byteTarget {
	var list []byteTarget
	for _, n := range names {
		list = append(list, byteTarget{Name: n, Seeds: seedsOf(n)})
	}
	for fz, tgs := range table {
		for _, entry := range loadCorpus(id, fz) {
			if len(entry) == 0 {
				continue
			}
			name := tgs[int(entry[0])%len(tgs)]
			for i := range list {
				if list[i].Name == name {
					list[i].Seeds = append(list[i].Seeds, entry[1:])
				}
			}
		}
	}
	return list
}

func c35ByteTargets() []byteTarget {
	c35TargetsOnce.Do(func() { c35TargetList = targetsWithCorpus("C35", c35Targets, c35FuzzTargets, c35Seeds) })
	return c35TargetList
}

func runC35Bytes(t rapid.TB, c byteCase, rec *vx.Case) {
	m := counters{}
	out := c35Decode(c.Target, c.Data, m)
	m.flush(rec)
	out.report(t, rec, "C35")
	rec.Class(c.Target)
	if m["decode_accepted"] > 0 {
		rec.Class("accepted:" + c.Target)
	}
	rec.NonTrivialIf(m["decode_accepted"] > 0)
}

func TestC35Bytes(t *testing.T) {
	targets := c35ByteTargets()
	// deterministic sweep first: every seed and every saved corpus / crasher entry, unmutated
	n := 0
	for _, tg := range targets {
		for _, s := range tg.Seeds {
			n++
			for _, f := range c35Decode(tg.Name, s, counters{}) {
				if !vx.IsKnown("C35", f.Sig) {
					t.Fatalf("VIOLATION property=C35 sig=%q: corpus entry for %s: %s", f.Sig, tg.Name, f.Msg)
				}
			}
		}
	}
	vx.Check(t, vx.Prop[byteCase]{
		ID: "C35",
		Rule: fmt.Sprintf("bytes for one of %d decoders (ICS-20 json/proto/abi/default, GMP data+ack x3, attestation state/packet): %d seeds = valid encodings + hostile constants + saved fuzz corpus (all replayed unmutated first), then truncated / bit-flipped / spliced with hostile words, or raw random; "+
			"oracle = no panic, and any value a decoder returns must itself round-trip under every encoding; non-trivial = the decoder accepted the bytes; distinct by (decoder, bytes)", len(targets), n),
		MinNTFrac: 0.05,
		Gen:       genByteCase(targets),
		Run:       runC35Bytes,
	})
}

// ---- native fuzz targets (thorough tier) -----------------------------------------------

func fuzzC35(f *testing.F, name string) {
	tgs := c35FuzzTargets[name]
	for _, s := range fuzzSeeds("C35", c35FuzzTargets, c35Seeds, name) {
		f.Add(s)
	}
	f.Fuzz(func(t *testing.T, data []byte) {
		if len(data) == 0 || len(data) > 1<<16 {
			return
		}
		c35Decode(tgs[int(data[0])%len(tgs)], data[1:], counters{}).failFuzz(t, "C35")
	})
}

func FuzzC35Transfer(f *testing.F)    { fuzzC35(f, "FuzzC35Transfer") }
func FuzzC35TransferABI(f *testing.F) { fuzzC35(f, "FuzzC35TransferABI") }
func FuzzC35GMP(f *testing.F)         { fuzzC35(f, "FuzzC35GMP") }
func FuzzC35Attestation(f *testing.F) { fuzzC35(f, "FuzzC35Attestation") }
