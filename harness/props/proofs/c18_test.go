package proofs

import (
	"bytes"
	"fmt"
	"reflect"
	"sort"
	"testing"

	ics23 "github.com/cosmos/ics23/go"
	"pgregory.net/rapid"

	channeltypesv2 "github.com/cosmos/ibc-go/v11/modules/core/04-channel/v2/types"
	commitmenttypes "github.com/cosmos/ibc-go/v11/modules/core/23-commitment/types"
	commitmenttypesv2 "github.com/cosmos/ibc-go/v11/modules/core/23-commitment/types/v2"

	"github.com/cosmos/ibc-go/v11/modules/apps/callbacks/verifx/sim"
	"github.com/cosmos/ibc-go/v11/modules/apps/callbacks/verifx/vx"
)

// C18: a membership proof verifies only if the key path holds exactly the given non-empty
// value under the given root; a non-membership proof only if the key is absent; altering the
// root, a path element, the value or a proof step makes verification fail; BuildMerklePath
// never changes the caller's prefix.
//
//   TestC18           random contents of one module store of a live chain, real chained
//                     [iavl, simple-merkle] proofs from ABCI queries, root = app hash in the
//                     committed header; exact agreement with the model map for genuine
//                     proofs, and single mutations of root / path / value / proof ops / specs.
//   TestC18BuildPath  BuildMerklePath on prefixes with spare capacity / aliasing a larger buffer.
//   FuzzC18Proof      native fuzzing over proof bytes, key and value against a deterministic
//                     rootmulti store ("verifies => the model agrees").

const (
	c18      = "C18"
	c18Store = "gmp" // a module store nothing else writes to in these worlds
)

// ---- generic tuple + mutations (shared with the fuzz target) ------------------------------------

type c18Tuple struct {
	Root  []byte
	Path  [][]byte
	Value []byte
	Proof commitmenttypes.MerkleProof
	Specs []*ics23.ProofSpec
}

type c18Mut struct {
	W    string
	I, J int
	X    byte // xor mask / filler, never 0
}

var c18MutKinds = []string{
	"root-flip", "root-trunc", "root-extend", "root-empty", "root-prev",
	"store-flip", "store-extend", "store-other", "key-flip", "key-extend", "key-trunc", "key-other", "path-swap", "path-len1", "path-len3",
	"val-flip", "val-trunc", "val-extend", "val-empty", "val-other",
	"leaf-prefix", "leaf-hash", "leaf-prehashkey", "leaf-prehashvalue", "leaf-length", "leaf-nil", "ep-key", "ep-value",
	"inner-prefix", "inner-suffix", "inner-hash", "inner-drop", "inner-dup", "inner-swap",
	"kind-swap", "proofs-trunc", "proofs-extend", "proofs-reverse", "proof-empty", "ne-drop-left", "ne-drop-right", "ne-swap-lr",
	"specs-swap", "specs-one", "specs-three", "specs-nil", "specs-same0", "specs-same1",
}

func mutGroup(w string) string {
	switch {
	case len(w) > 4 && w[:5] == "root-":
		return "root"
	case len(w) > 5 && w[:6] == "store-", len(w) > 4 && w[:5] == "path-":
		return "path"
	case len(w) > 3 && w[:4] == "key-":
		return "key"
	case len(w) > 3 && w[:4] == "val-":
		return "value"
	case len(w) > 5 && w[:6] == "specs-":
		return "specs"
	}
	return "proof-op"
}

func cloneProof(p commitmenttypes.MerkleProof) commitmenttypes.MerkleProof {
	bz, err := p.Marshal()
	if err != nil {
		vx.Harnessf("marshal proof: %v", err)
	}
	var out commitmenttypes.MerkleProof
	if err := out.Unmarshal(bz); err != nil {
		vx.Harnessf("unmarshal proof: %v", err)
	}
	return out
}

func (t c18Tuple) clone() c18Tuple {
	o := c18Tuple{Root: clone(t.Root), Value: clone(t.Value), Proof: cloneProof(t.Proof)}
	for _, e := range t.Path {
		o.Path = append(o.Path, clone(e))
	}
	o.Specs = append([]*ics23.ProofSpec(nil), t.Specs...)
	return o
}

// existence proof inside a commitment proof: the proof itself, or a neighbour of a
// non-existence proof (sel picks left/right when both exist).
func pickExist(p *ics23.CommitmentProof, sel int) *ics23.ExistenceProof {
	if p == nil {
		return nil
	}
	if e := p.GetExist(); e != nil {
		return e
	}
	if n := p.GetNonexist(); n != nil {
		switch {
		case n.Left != nil && n.Right != nil:
			if sel%2 == 0 {
				return n.Left
			}
			return n.Right
		case n.Left != nil:
			return n.Left
		default:
			return n.Right
		}
	}
	return nil
}

func flipAt(b []byte, i int, x byte) bool {
	if len(b) == 0 || x == 0 {
		return false
	}
	b[((i%len(b))+len(b))%len(b)] ^= x
	return true
}

func otherHash(h ics23.HashOp) ics23.HashOp {
	if h == ics23.HashOp_SHA256 {
		return ics23.HashOp_NO_HASH
	}
	return ics23.HashOp_SHA256
}

// applyMut applies one mutation to a copy of t. applied=false: not applicable to this tuple.
func applyMut(t c18Tuple, m c18Mut, prevRoot []byte, otherKey, otherVal []byte) (out c18Tuple, applied bool) {
	out = t.clone()
	x := m.X
	if x == 0 {
		x = 1
	}
	abs := func(i int) int {
		if i < 0 {
			return -i
		}
		return i
	}
	i, j := abs(m.I), abs(m.J)
	level := j % 2
	var ep *ics23.ExistenceProof
	if level < len(out.Proof.Proofs) {
		ep = pickExist(out.Proof.Proofs[level], i/7)
	}
	switch m.W {
	case "root-flip":
		return out, flipAt(out.Root, i, x)
	case "root-trunc":
		if len(out.Root) == 0 {
			return out, false
		}
		out.Root = out.Root[:len(out.Root)-1]
		return out, true
	case "root-extend":
		out.Root = append(out.Root, x)
		return out, true
	case "root-empty":
		out.Root = nil
		return out, true
	case "root-prev":
		if len(prevRoot) == 0 || bytes.Equal(prevRoot, out.Root) {
			return out, false
		}
		out.Root = clone(prevRoot)
		return out, true
	case "store-flip":
		return out, len(out.Path) == 2 && flipAt(out.Path[0], i, x)
	case "store-extend":
		if len(out.Path) != 2 {
			return out, false
		}
		out.Path[0] = append(out.Path[0], x)
		return out, true
	case "store-other":
		if len(out.Path) != 2 || string(out.Path[0]) == "ibc" {
			return out, false
		}
		out.Path[0] = []byte("ibc")
		return out, true
	case "key-flip":
		return out, len(out.Path) == 2 && flipAt(out.Path[1], i, x)
	case "key-extend":
		if len(out.Path) != 2 {
			return out, false
		}
		out.Path[1] = append(out.Path[1], x)
		return out, true
	case "key-trunc":
		if len(out.Path) != 2 || len(out.Path[1]) == 0 {
			return out, false
		}
		out.Path[1] = out.Path[1][:len(out.Path[1])-1]
		return out, true
	case "key-other":
		if len(out.Path) != 2 || otherKey == nil || bytes.Equal(otherKey, out.Path[1]) {
			return out, false
		}
		out.Path[1] = clone(otherKey)
		return out, true
	case "path-swap":
		if len(out.Path) != 2 || bytes.Equal(out.Path[0], out.Path[1]) {
			return out, false
		}
		out.Path[0], out.Path[1] = out.Path[1], out.Path[0]
		return out, true
	case "path-len1":
		if len(out.Path) != 2 {
			return out, false
		}
		out.Path = out.Path[1:]
		return out, true
	case "path-len3":
		out.Path = append([][]byte{{x}}, out.Path...)
		if i%2 == 0 {
			out.Path = append(out.Path[1:], []byte{x})
		}
		return out, true
	case "val-flip":
		return out, flipAt(out.Value, i, x)
	case "val-trunc":
		if len(out.Value) == 0 {
			return out, false
		}
		out.Value = out.Value[:len(out.Value)-1]
		return out, true
	case "val-extend":
		if len(out.Value) == 0 {
			return out, false // non-membership tuples carry no value
		}
		out.Value = append(out.Value, x)
		return out, true
	case "val-empty":
		if len(out.Value) == 0 {
			return out, false
		}
		out.Value = nil
		return out, true
	case "val-other":
		if len(out.Value) == 0 || len(otherVal) == 0 || bytes.Equal(otherVal, out.Value) {
			return out, false
		}
		out.Value = clone(otherVal)
		return out, true
	}
	// ---- proof ops
	switch m.W {
	case "leaf-prefix":
		if ep == nil || ep.Leaf == nil {
			return out, false
		}
		if len(ep.Leaf.Prefix) == 0 || i%3 == 0 {
			ep.Leaf.Prefix = append(ep.Leaf.Prefix, x)
			return out, true
		}
		return out, flipAt(ep.Leaf.Prefix, i, x)
	case "leaf-hash":
		if ep == nil || ep.Leaf == nil {
			return out, false
		}
		ep.Leaf.Hash = otherHash(ep.Leaf.Hash)
		return out, true
	case "leaf-prehashkey":
		if ep == nil || ep.Leaf == nil {
			return out, false
		}
		ep.Leaf.PrehashKey = otherHash(ep.Leaf.PrehashKey)
		return out, true
	case "leaf-prehashvalue":
		if ep == nil || ep.Leaf == nil {
			return out, false
		}
		ep.Leaf.PrehashValue = otherHash(ep.Leaf.PrehashValue)
		return out, true
	case "leaf-length":
		if ep == nil || ep.Leaf == nil {
			return out, false
		}
		if ep.Leaf.Length == ics23.LengthOp_VAR_PROTO {
			ep.Leaf.Length = ics23.LengthOp_NO_PREFIX
		} else {
			ep.Leaf.Length = ics23.LengthOp_VAR_PROTO
		}
		return out, true
	case "leaf-nil":
		if ep == nil || ep.Leaf == nil {
			return out, false
		}
		ep.Leaf = nil
		return out, true
	case "ep-key":
		if ep == nil {
			return out, false
		}
		if len(ep.Key) == 0 || i%4 == 0 {
			ep.Key = append(ep.Key, x)
			return out, true
		}
		return out, flipAt(ep.Key, i, x)
	case "ep-value":
		if ep == nil {
			return out, false
		}
		if len(ep.Value) == 0 || i%4 == 0 {
			ep.Value = append(ep.Value, x)
			return out, true
		}
		return out, flipAt(ep.Value, i, x)
	case "inner-prefix", "inner-suffix", "inner-hash", "inner-drop", "inner-dup", "inner-swap":
		if ep == nil || len(ep.Path) == 0 {
			return out, false
		}
		k := (i / 3) % len(ep.Path)
		op := ep.Path[k]
		switch m.W {
		case "inner-prefix":
			return out, flipAt(op.Prefix, i, x)
		case "inner-suffix":
			if len(op.Suffix) == 0 {
				op.Suffix = []byte{x}
				return out, true
			}
			return out, flipAt(op.Suffix, i, x)
		case "inner-hash":
			op.Hash = otherHash(op.Hash)
			return out, true
		case "inner-drop":
			ep.Path = append(ep.Path[:k:k], ep.Path[k+1:]...)
			return out, true
		case "inner-dup":
			ep.Path = append(ep.Path[:k+1:k+1], ep.Path[k:]...)
			return out, true
		default:
			if len(ep.Path) < 2 {
				return out, false
			}
			k2 := (k + 1) % len(ep.Path)
			if reflect.DeepEqual(ep.Path[k], ep.Path[k2]) {
				return out, false
			}
			ep.Path[k], ep.Path[k2] = ep.Path[k2], ep.Path[k]
			return out, true
		}
	case "kind-swap":
		if level >= len(out.Proof.Proofs) || ep == nil {
			return out, false
		}
		p := out.Proof.Proofs[level]
		if p.GetExist() != nil {
			ne := &ics23.NonExistenceProof{Key: clone(ep.Key)}
			if i%2 == 0 {
				ne.Left = ep
			} else {
				ne.Right = ep
			}
			out.Proof.Proofs[level] = &ics23.CommitmentProof{Proof: &ics23.CommitmentProof_Nonexist{Nonexist: ne}}
		} else {
			out.Proof.Proofs[level] = &ics23.CommitmentProof{Proof: &ics23.CommitmentProof_Exist{Exist: ep}}
		}
		return out, true
	case "proofs-trunc":
		if len(out.Proof.Proofs) < 2 {
			return out, false
		}
		if i%2 == 0 {
			out.Proof.Proofs = out.Proof.Proofs[:len(out.Proof.Proofs)-1]
		} else {
			out.Proof.Proofs = out.Proof.Proofs[1:]
		}
		return out, true
	case "proofs-extend":
		if len(out.Proof.Proofs) == 0 {
			return out, false
		}
		k := i % len(out.Proof.Proofs)
		out.Proof.Proofs = append(out.Proof.Proofs, out.Proof.Proofs[k])
		return out, true
	case "proofs-reverse":
		if len(out.Proof.Proofs) != 2 {
			return out, false
		}
		out.Proof.Proofs[0], out.Proof.Proofs[1] = out.Proof.Proofs[1], out.Proof.Proofs[0]
		return out, true
	case "proof-empty":
		if level >= len(out.Proof.Proofs) {
			return out, false
		}
		out.Proof.Proofs[level] = &ics23.CommitmentProof{}
		return out, true
	case "ne-drop-left", "ne-drop-right", "ne-swap-lr":
		if len(out.Proof.Proofs) == 0 {
			return out, false
		}
		ne := out.Proof.Proofs[0].GetNonexist()
		if ne == nil {
			return out, false
		}
		switch m.W {
		case "ne-drop-left":
			if ne.Left == nil {
				return out, false
			}
			ne.Left = nil
		case "ne-drop-right":
			if ne.Right == nil {
				return out, false
			}
			ne.Right = nil
		default:
			ne.Left, ne.Right = ne.Right, ne.Left
		}
		return out, true
	case "specs-swap":
		if len(out.Specs) != 2 {
			return out, false
		}
		out.Specs[0], out.Specs[1] = out.Specs[1], out.Specs[0]
		return out, true
	case "specs-one":
		if len(out.Specs) < 2 {
			return out, false
		}
		out.Specs = out.Specs[i%2 : i%2+1]
		return out, true
	case "specs-three":
		out.Specs = append(out.Specs, out.Specs[i%len(out.Specs)])
		return out, true
	case "specs-nil":
		out.Specs[i%len(out.Specs)] = nil
		return out, true
	case "specs-same0":
		if len(out.Specs) != 2 {
			return out, false
		}
		out.Specs[1] = out.Specs[0]
		return out, true
	case "specs-same1":
		if len(out.Specs) != 2 {
			return out, false
		}
		out.Specs[0] = out.Specs[1]
		return out, true
	}
	return out, false
}

// verify runs both verification functions; a panic counts as "did not verify".
func (t c18Tuple) verify() (member, nonMember bool, panics int) {
	root := commitmenttypes.NewMerkleRoot(t.Root)
	path := commitmenttypesv2.NewMerklePath(t.Path...)
	if p, _ := vx.Recover(func() { member = t.Proof.VerifyMembership(t.Specs, root, path, t.Value) == nil }); p {
		member = false
		panics++
	}
	if p, _ := vx.Recover(func() { nonMember = t.Proof.VerifyNonMembership(t.Specs, root, path) == nil }); p {
		nonMember = false
		panics++
	}
	return member, nonMember, panics
}

// ---- the live-chain check -------------------------------------------------------------------------

type c18Target struct {
	Absent  bool
	Idx     int    // present: index into the sorted key list; absent: neighbour index
	AbsKind string // left | right | between | raw
	Seed    []byte // absent: extension bytes / raw key
	Muts    []c18Mut
}

type c18Case struct {
	KVs     []kv
	Targets []c18Target
}

var ics24Samples = []string{
	"clients/07-tendermint-0/clientState", "clients/07-tendermint-0/consensusStates/1-7", "connections/connection-0",
	"channelEnds/ports/transfer/channels/channel-0", "commitments/ports/transfer/channels/channel-0/sequences/1",
	"commitments/ports/transfer/channels/channel-0/sequences/10", "receipts/ports/transfer/channels/channel-0/sequences/1",
	"acks/ports/transfer/channels/channel-0/sequences/1", "nextSequenceRecv/ports/transfer/channels/channel-0", "gmp", "ibc",
}

func genKey(t *rapid.T, pool [][]byte, label string) []byte {
	switch rapid.IntRange(0, 6).Draw(t, label+"kind") {
	case 0:
		return []byte(rapid.SampledFrom(ics24Samples).Draw(t, label+"ics"))
	case 1:
		n := rapid.Uint64Range(0, 300).Draw(t, label+"seq")
		return []byte(fmt.Sprintf("commitments/ports/transfer/channels/channel-%d/sequences/%d", n%3, n))
	case 2, 3: // share a prefix with an earlier key
		if len(pool) > 0 {
			b := pool[rapid.IntRange(0, len(pool)-1).Draw(t, label+"base")]
			cut := rapid.IntRange(1, len(b)).Draw(t, label+"cut")
			return append(clone(b[:cut]), genBytes(t, 0, 3, label+"ext")...)
		}
		fallthrough
	case 4:
		return []byte{rapid.SampledFrom([]byte{0x00, 0x01, 0x7f, 0x80, 0xff}).Draw(t, label+"b")}
	default:
		return genBytes(t, 1, 24, label+"raw")
	}
}

func genMuts(t *rapid.T, n int) []c18Mut {
	var out []c18Mut
	for k := 0; k < n; k++ {
		out = append(out, c18Mut{
			W: rapid.SampledFrom(c18MutKinds).Draw(t, "mut"),
			I: rapid.IntRange(0, 1<<16).Draw(t, "mi"),
			J: rapid.IntRange(0, 1<<16).Draw(t, "mj"),
			X: byte(rapid.IntRange(1, 255).Draw(t, "mx")),
		})
	}
	return out
}

func genC18(t *rapid.T) c18Case {
	var c c18Case
	n := rapid.IntRange(1, 40).Draw(t, "n")
	if rapid.IntRange(0, 9).Draw(t, "big") == 0 {
		n = rapid.IntRange(41, 200).Draw(t, "nbig")
	}
	var pool [][]byte
	for k := 0; k < n; k++ {
		key := genKey(t, pool, "k")
		pool = append(pool, key)
		val := genBytes(t, 1, 40, "v")
		if rapid.IntRange(0, 29).Draw(t, "emptyval") == 0 {
			val = []byte{}
		}
		c.KVs = append(c.KVs, kv{key, val})
	}
	nt := rapid.IntRange(3, 8).Draw(t, "targets")
	for k := 0; k < nt; k++ {
		tg := c18Target{Idx: rapid.IntRange(0, 1<<12).Draw(t, "idx")}
		if rapid.IntRange(0, 9).Draw(t, "absent") < 4 {
			tg.Absent = true
			tg.AbsKind = rapid.SampledFrom([]string{"left", "right", "between", "between", "raw"}).Draw(t, "abskind")
			tg.Seed = genBytes(t, 1, 6, "seed")
			if tg.AbsKind == "raw" {
				tg.Seed = genKey(t, pool, "abs")
			}
		}
		tg.Muts = genMuts(t, rapid.IntRange(2, 7).Draw(t, "nm"))
		c.Targets = append(c.Targets, tg)
	}
	return c
}

type c18World struct {
	w        *sim.World
	prevRoot []byte
}

func getC18World(outer *testing.T) *c18World {
	return sharedWorld("c18", func() *c18World { return &c18World{w: sim.NewWorld(outer, 1, nil)} })
}

// absentKey derives the concrete absent key of a target from the sorted key list.
func absentKey(keys [][]byte, tg c18Target) []byte {
	if len(keys) == 0 || len(tg.Seed) == 0 {
		return clone(tg.Seed)
	}
	switch tg.AbsKind {
	case "left":
		m := keys[0]
		if len(m) > 1 {
			return clone(m[:len(m)-1-tg.Idx%(len(m)-1)]) // a proper prefix sorts before
		}
		if m[0] > 0 {
			return append([]byte{m[0] - 1}, tg.Seed...)
		}
		return append(clone(keys[len(keys)-1]), tg.Seed...)
	case "right":
		return append(clone(keys[len(keys)-1]), tg.Seed...)
	case "between":
		a := keys[tg.Idx%len(keys)]
		if tg.Idx%2 == 0 {
			return append(clone(a), 0x00) // immediate successor of a
		}
		return append(clone(a), tg.Seed...)
	}
	return clone(tg.Seed)
}

func runC18(outer *testing.T) func(rapid.TB, c18Case, *vx.Case) {
	return func(t rapid.TB, c c18Case, rec *vx.Case) {
		cw := getC18World(outer)
		w := cw.w
		app := w.App(0)
		skey := app.GetKey(c18Store)
		if skey == nil {
			vx.Harnessf("no %s store", c18Store)
		}
		// the store holds exactly this case's contents: wipe, write, commit
		model := map[string][]byte{}
		sim.Guard("store write", func() {
			st := w.Ctx(0).KVStore(skey)
			old, _ := dumpKV(st)
			for _, k := range old {
				st.Delete(k)
			}
			for _, e := range c.KVs {
				if len(e.K) == 0 {
					continue
				}
				st.Set(e.K, e.V)
				model[string(e.K)] = e.V
			}
			w.Block(0, 1) // version H holds the writes
			w.Block(0, 1) // header H+1 carries the app hash of version H
		})
		hdr := w.Chains[0].LatestCommittedHeader
		root := clone(hdr.Header.AppHash)
		h := uint64(hdr.Header.Height)
		keys, dump := dumpKV(w.Ctx(0).KVStore(skey))
		if len(dump) != len(model) {
			vx.Harnessf("store holds %d keys, model %d", len(dump), len(model))
		}
		for k, v := range model {
			if !bytes.Equal(dump[k], v) {
				vx.Harnessf("store and model differ at %q", k)
			}
		}
		prev := cw.prevRoot
		cw.prevRoot = root
		rec.Add("keys", int64(len(keys)))

		specs := commitmenttypes.GetSDKSpecs()
		truth := func(tp c18Tuple) (member, nonMember bool) {
			if !bytes.Equal(tp.Root, root) || len(tp.Path) != 2 || string(tp.Path[0]) != c18Store {
				return false, false
			}
			v, ok := model[string(tp.Path[1])]
			return ok && len(tp.Value) > 0 && bytes.Equal(v, tp.Value), !ok
		}
		nt := false
		for ti, tg := range c.Targets {
			var key []byte
			if tg.Absent {
				key = absentKey(keys, tg)
				if len(key) == 0 {
					continue
				}
			} else {
				key = keys[tg.Idx%len(keys)]
			}
			val, present := model[string(key)]
			bz, _ := w.ProofForStore(0, c18Store, key, h)
			if len(bz) == 0 {
				vx.Harnessf("no proof for key %q at height %d", key, h)
			}
			var mp commitmenttypes.MerkleProof
			if err := mp.Unmarshal(bz); err != nil {
				vx.Harnessf("proof does not decode: %v", err)
			}
			base := c18Tuple{Root: clone(root), Path: [][]byte{[]byte(c18Store), clone(key)}, Proof: mp, Specs: append([]*ics23.ProofSpec(nil), specs...)}
			if present {
				base.Value = clone(val)
			}
			rec.Add("proofs", 1)
			mem, non, pan := base.verify()
			rec.Add("verify_panics", int64(pan))
			// exactness for genuine proofs
			switch {
			case present && len(val) > 0:
				rec.Class("member")
				if !mem {
					vx.Violatef(t, rec, c18, "true-membership-rejected", "target %d: genuine proof that %q holds %x under the committed root does not verify", ti, key, val)
				}
				if non {
					vx.Violatef(t, rec, c18, "false-nonmembership-accepted", "target %d: non-membership of present key %q verifies", ti, key)
				}
			case present:
				rec.Class("member-empty-value")
				if mem {
					vx.Violatef(t, rec, c18, "empty-value-accepted", "target %d: membership of %q with an empty value verifies", ti, key)
				}
				if non {
					vx.Violatef(t, rec, c18, "false-nonmembership-accepted", "target %d: non-membership of present key %q (empty value) verifies", ti, key)
				}
				// a non-empty claimed value must fail too
				probe := base.clone()
				probe.Value = []byte{1}
				if m2, _, _ := probe.verify(); m2 {
					vx.Violatef(t, rec, c18, "false-membership-accepted", "target %d: %q holds the empty value but membership of 0x01 verifies", ti, key)
				}
			default:
				ne := mp.Proofs[0].GetNonexist()
				both := ne != nil && ne.Left != nil && ne.Right != nil
				switch {
				case both:
					rec.Class("absent-both-neighbours")
					nt = true
				case ne != nil && ne.Left == nil:
					rec.Class("absent-left-edge")
				default:
					rec.Class("absent-right-edge")
				}
				// ics23 cannot evaluate an existence proof of an empty value, so absence next to an
				// empty-valued key is unprovable; IBC never stores empty values and the statement only
				// forbids false acceptances, so the converse is not demanded there (counted)
				pos := sort.Search(len(keys), func(i int) bool { return bytes.Compare(keys[i], key) > 0 })
				emptyNb := (pos > 0 && len(model[string(keys[pos-1])]) == 0) || (pos < len(keys) && len(model[string(keys[pos])]) == 0)
				if emptyNb {
					rec.Add("converse_skipped_empty_neighbour", 1)
				}
				if !non && !emptyNb {
					vx.Violatef(t, rec, c18, "true-nonmembership-rejected", "target %d: genuine proof that %q is absent does not verify", ti, key)
				}
				probe := base.clone()
				probe.Value = []byte{1}
				if m2, _, _ := probe.verify(); m2 || mem {
					vx.Violatef(t, rec, c18, "false-membership-accepted", "target %d: membership of absent key %q verifies", ti, key)
				}
			}
			// single mutations
			ok := keys[(tg.Idx/3)%len(keys)]
			for _, m := range tg.Muts {
				mt, applied := applyMut(base, m, prev, ok, model[string(ok)])
				if !applied {
					rec.Add("mut_not_applicable", 1)
					continue
				}
				rec.Add("mutations", 1)
				nt = true
				grp := mutGroup(m.W)
				rec.Class("mut-%s", grp)
				mm, mn, pan := mt.verify()
				rec.Add("verify_panics", int64(pan))
				tm, tn := truth(mt)
				// soundness: whatever the mutation, acceptance needs a true statement
				if mm && !tm {
					vx.Violatef(t, rec, c18, "mut-"+grp+"-accepted", "target %d (%q, present=%v): membership verifies after mutation %+v", ti, key, present, m)
				}
				if mn && !tn {
					vx.Violatef(t, rec, c18, "mut-"+grp+"-accepted", "target %d (%q, present=%v): non-membership verifies after mutation %+v", ti, key, present, m)
				}
				// every alteration makes verification fail. The one exception: moving the key of a
				// non-membership statement inside the same gap leaves a true statement with a proof that
				// still proves it (the proof binds the neighbours, not the absent key).
				// Substituting another well-formed spec (swap / same spec at both levels) is not one of
				// the alterations the statement lists and ics23 spec checks are prefix-based (a single-leaf
				// IAVL proof also satisfies the tendermint spec): soundness only, acceptances counted.
				specAlt := m.W == "specs-swap" || m.W == "specs-same0" || m.W == "specs-same1"
				if specAlt && (mm || mn) {
					rec.Add("alt_spec_accepted_true_statement", 1)
				}
				if (mm || mn) && !specAlt && !(grp == "key" && !present && mn && tn && !mm) {
					vx.Violatef(t, rec, c18, "mut-"+grp+"-accepted", "target %d (%q, present=%v): verification still succeeds (member=%v nonmember=%v) after mutation %+v", ti, key, present, mm, mn, m)
				}
				if mn && grp == "key" {
					rec.Add("nonmember_key_moved_in_gap", 1)
				}
			}
		}
		if len(keys) == 1 {
			rec.Class("single-key-store")
		}
		if len(keys) > 40 {
			rec.Class("large-store")
		}
		rec.NonTrivialIf(nt)
	}
}

func TestC18(t *testing.T) {
	vx.Check(t, vx.Prop[c18Case]{
		ID:        c18,
		Rule:      "1..200 random keys/values (ICS-24 paths, shared prefixes, single bytes, 3% empty values) rewritten into the gmp store of a live chain and committed; 3..8 targets per case (present key / absent key left of all, between, right of all) with real chained proofs from ABCI queries against the app hash of the committed header; per target 2..7 single mutations of root, path, value, proof ops, spec list; non-trivial = at least one applied mutation or a non-membership proof with both neighbours; distinct by full case",
		MinNTFrac: 0.8,
		Gen:       genC18,
		Run:       runC18(t),
	})
}

// ---- BuildMerklePath ----------------------------------------------------------------------------

type c18Elem struct {
	Data  []byte
	Extra int  // spare capacity behind the element
	Alias bool // the element is a window into a larger buffer whose tail holds other live data
}

type c18PathCase struct {
	Prefix []c18Elem
	Path   []byte
	Path2  []byte
}

func genC18Path(t *rapid.T) c18PathCase {
	var c c18PathCase
	n := rapid.IntRange(1, 3).Draw(t, "n")
	for k := 0; k < n; k++ {
		e := c18Elem{Data: genBytes(t, 0, 8, "elem"), Extra: rapid.IntRange(0, 64).Draw(t, "extra"), Alias: rapid.Bool().Draw(t, "alias")}
		if rapid.IntRange(0, 3).Draw(t, "ibc") == 0 {
			e.Data = []byte("ibc")
		}
		c.Prefix = append(c.Prefix, e)
	}
	c.Path = genBytes(t, 0, 40, "path")
	c.Path2 = genBytes(t, 0, 40, "path2")
	return c
}

func runC18Path(t rapid.TB, c c18PathCase, rec *vx.Case) {
	if len(c.Prefix) == 0 {
		vx.Harnessf("empty prefix")
	}
	const fill = 0xEE
	var bufs [][]byte
	prefix := make([][]byte, 0, len(c.Prefix)+2) // the outer slice has spare capacity too
	for _, e := range c.Prefix {
		buf := make([]byte, len(e.Data)+e.Extra)
		copy(buf, e.Data)
		for i := len(e.Data); i < len(buf); i++ {
			buf[i] = fill
		}
		bufs = append(bufs, buf)
		if e.Alias {
			prefix = append(prefix, buf[:len(e.Data)]) // cap reaches into the tail
		} else {
			prefix = append(prefix, buf[:len(e.Data):len(e.Data)+e.Extra])
		}
	}
	before := make([][]byte, len(prefix))
	for i, e := range prefix {
		before[i] = clone(e)
	}
	want := func(path []byte) [][]byte {
		out := make([][]byte, len(before))
		for i, e := range before {
			out[i] = clone(e)
		}
		out[len(out)-1] = append(out[len(out)-1], path...)
		return out
	}
	eq := func(a, b [][]byte) bool {
		if len(a) != len(b) {
			return false
		}
		for i := range a {
			if !bytes.Equal(a[i], b[i]) {
				return false
			}
		}
		return true
	}
	r1 := channeltypesv2.BuildMerklePath(prefix, c.Path)
	if len(prefix) != len(before) || !eq(prefix, before) {
		vx.Violatef(t, rec, c18, "buildpath-changes-prefix", "prefix %x became %x after BuildMerklePath(path=%x)", before, prefix, c.Path)
	}
	if !eq(r1.KeyPath, want(c.Path)) {
		vx.Violatef(t, rec, c18, "buildpath-wrong-result", "BuildMerklePath(%x, %x) = %x, want %x", before, c.Path, r1.KeyPath, want(c.Path))
	}
	r2 := channeltypesv2.BuildMerklePath(prefix, c.Path2)
	if !eq(prefix, before) {
		vx.Violatef(t, rec, c18, "buildpath-changes-prefix", "prefix %x became %x after a second BuildMerklePath", before, prefix)
	}
	if !eq(r2.KeyPath, want(c.Path2)) {
		vx.Violatef(t, rec, c18, "buildpath-wrong-result", "second BuildMerklePath(%x, %x) = %x, want %x", before, c.Path2, r2.KeyPath, want(c.Path2))
	}
	// observations outside the statement (the prefix itself is unchanged): the spare capacity
	// behind the last element is written, so an earlier result can change under a later call
	last := c.Prefix[len(c.Prefix)-1]
	spare := last.Extra > 0
	if spare {
		rec.Class("last-elem-spare-capacity")
		if !eq(r1.KeyPath, want(c.Path)) {
			rec.Add("obs_earlier_result_overwritten", 1)
		}
		tail := bufs[len(bufs)-1][len(last.Data):]
		for _, b := range tail {
			if b != fill {
				rec.Add("obs_caller_buffer_tail_written", 1)
				break
			}
		}
	} else {
		rec.Class("last-elem-exact-capacity")
	}
	if len(c.Prefix) > 1 {
		rec.Class("multi-element-prefix")
	}
	rec.NonTrivialIf(spare && len(c.Path) > 0)
}

func TestC18BuildPath(t *testing.T) {
	vx.Check(t, vx.Prop[c18PathCase]{
		ID:        c18,
		Rule:      "prefixes of 1..3 elements, each with 0..64 bytes of spare capacity or aliasing a larger live buffer, outer slice with spare capacity; two successive BuildMerklePath calls; prefix must stay deep-equal to its pre-call copy and the result must be prefix[:n-1] || (prefix[n-1]||path); non-trivial = last element has spare capacity and the path is non-empty",
		MinNTFrac: 0.5,
		Gen:       genC18Path,
		Run:       runC18Path,
	})
}
