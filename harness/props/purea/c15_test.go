package purea

import (
	"fmt"
	"math"
	"math/big"
	"regexp"
	"strings"
	"testing"

	"pgregory.net/rapid"

	clienttypes "github.com/cosmos/ibc-go/v11/modules/core/02-client/types"
	connectiontypes "github.com/cosmos/ibc-go/v11/modules/core/03-connection/types"
	channeltypes "github.com/cosmos/ibc-go/v11/modules/core/04-channel/types"
	host "github.com/cosmos/ibc-go/v11/modules/core/24-host"

	"github.com/cosmos/ibc-go/v11/modules/apps/callbacks/verifx/vx"
)

// C15: generated identifiers are unique over the whole history and validate; format-then-
// parse returns the same client type and sequence; no parser accepts an identifier whose
// sequence does not fit in 64 bits.

// =====================================================================================
// pure part
// =====================================================================================

type c15Case struct {
	Type   string // candidate client type
	Seq    uint64
	Digits string // numeric suffix probe (may exceed 2^64-1, may have leading zeros)
	Prefix string // prefix handed to host.ParseIdentifier
}

var c15MaxU64 = new(big.Int).SetUint64(math.MaxUint64)

const c15W = "abcdefghijklmnopqrstuvwxyzABCDEFGHIJKLMNOPQRSTUVWXYZ0123456789_"

// c15InModel is the language of client types read off the statement's anchors: word
// characters and dashes, first and last a word character, and short enough that
// "<type>-<max uint64>" is a valid 4..64 character identifier.
var c15TypeRe = regexp.MustCompile(`^[A-Za-z0-9_]([A-Za-z0-9_-]*[A-Za-z0-9_])?$`)

func c15InModel(s string) bool {
	return len(s) >= 2 && len(s) <= 64-21 && c15TypeRe.MatchString(s)
}

func genC15(t *rapid.T) c15Case {
	var c c15Case
	w := rapid.SampledFrom([]rune(c15W))
	mid := rapid.SampledFrom([]rune(c15W + "-----0123456789"))
	switch rapid.IntRange(0, 9).Draw(t, "typekind") {
	case 0:
		c.Type = rapid.SampledFrom([]string{"07-tendermint", "06-solomachine", "08-wasm", "09-localhost", "10-attestations", "ab", "a1", "0-0", "a--b", "x_-_y", "1-2-3"}).Draw(t, "known")
	case 1: // near misses
		c.Type = rapid.SampledFrom([]string{"", " ", "a", "-a", "a-", "a.b", "a/b", "a b", "ab-", "-", "--", "a+b", "é1", "ab\n", "07-tendermint-", strings.Repeat("a", 44), strings.Repeat("a", 43) + "-", strings.Repeat("ab", 40)}).Draw(t, "nearmiss")
	case 2: // length boundary
		n := rapid.IntRange(40, 46).Draw(t, "tlen")
		c.Type = string(w.Draw(t, "f")) + rapid.StringOfN(mid, n-2, n-2, -1).Draw(t, "m") + string(w.Draw(t, "l"))
	default:
		n := rapid.IntRange(0, 14).Draw(t, "mlen")
		c.Type = string(w.Draw(t, "f")) + rapid.StringOfN(mid, n, n, -1).Draw(t, "m") + string(w.Draw(t, "l"))
	}
	c.Seq = vx.U64().Draw(t, "seq")
	if rapid.IntRange(0, 2).Draw(t, "hiseq") == 0 {
		c.Seq = rapid.Uint64Range(1<<63, math.MaxUint64).Draw(t, "seqhi")
	}
	// numeric suffix probes
	var d string
	switch rapid.IntRange(0, 7).Draw(t, "digkind") {
	case 0:
		d = fmt.Sprint(vx.U64().Draw(t, "dU"))
	case 1: // just above the bound
		d = new(big.Int).Add(c15MaxU64, big.NewInt(int64(rapid.IntRange(1, 20).Draw(t, "dover")))).String()
	case 2: // at / just below the bound
		d = new(big.Int).Sub(c15MaxU64, big.NewInt(int64(rapid.IntRange(0, 3).Draw(t, "dunder")))).String()
	case 3: // 20 digits, anything
		d = string(rapid.SampledFrom([]rune("123456789")).Draw(t, "d0")) + rapid.StringOfN(rapid.SampledFrom([]rune("0123456789")), 19, 19, -1).Draw(t, "d19")
	case 4: // 21..26 digits
		n := rapid.IntRange(20, 25).Draw(t, "dn")
		d = string(rapid.SampledFrom([]rune("123456789")).Draw(t, "d0")) + rapid.StringOfN(rapid.SampledFrom([]rune("0123456789")), n, n, -1).Draw(t, "dN")
	case 5: // multiples of 2^64 plus a small value (wrap-around candidates)
		k := big.NewInt(int64(rapid.IntRange(1, 9).Draw(t, "k")))
		v := new(big.Int).Mul(k, new(big.Int).Lsh(big.NewInt(1), 64))
		d = v.Add(v, new(big.Int).SetUint64(rapid.Uint64Range(0, 100).Draw(t, "r"))).String()
	case 6: // 2^63 neighbourhood
		d = new(big.Int).Add(new(big.Int).Lsh(big.NewInt(1), 63), big.NewInt(int64(rapid.IntRange(-2, 2).Draw(t, "d63")))).String()
	default:
		d = rapid.StringOfN(rapid.SampledFrom([]rune("0123456789")), 1, 22, -1).Draw(t, "drand")
	}
	if rapid.IntRange(0, 3).Draw(t, "lz") == 0 {
		d = strings.Repeat("0", rapid.IntRange(1, 4).Draw(t, "nz")) + d
	}
	c.Digits = d
	c.Prefix = rapid.SampledFrom([]string{"channel-", "connection-", "client-", "x", "07-tendermint-", "a-"}).Draw(t, "prefix")
	return c
}

func runC15(t rapid.TB, c c15Case, rec *vx.Case) {
	const id = "C15"
	// ---- client type: format -> parse, validation
	accepted := clienttypes.ValidateClientType(c.Type) == nil
	model := c15InModel(c.Type)
	if accepted {
		rec.Class("type-accepted")
		seqs := []uint64{c.Seq, 0, math.MaxUint64}
		for _, n := range seqs {
			cid := clienttypes.FormatClientIdentifier(c.Type, n)
			ty, sq, err := clienttypes.ParseClientIdentifier(cid)
			if err != nil || ty != c.Type || sq != n {
				vx.Violatef(t, rec, id, "client-roundtrip", "ParseClientIdentifier(Format(%q,%d)=%q) = (%q,%d,%v)", c.Type, n, cid, ty, sq, err)
			}
			if err := host.ClientIdentifierValidator(cid); err != nil {
				vx.Violatef(t, rec, id, "client-id-invalid", "Format(%q,%d)=%q fails ClientIdentifierValidator: %v", c.Type, n, cid, err)
			}
			if !clienttypes.IsValidClientID(cid) {
				vx.Violatef(t, rec, id, "client-id-invalid", "Format(%q,%d)=%q is not IsValidClientID", c.Type, n, cid)
			}
		}
	} else {
		rec.Class("type-rejected")
	}
	if model && !accepted {
		rec.Add("type_model_accepts_code_rejects", 1)
	}
	if !model && accepted {
		rec.Add("type_code_accepts_model_rejects", 1)
	}

	// ---- channel / connection: format -> parse, validation
	chID := channeltypes.FormatChannelIdentifier(c.Seq)
	if n, err := channeltypes.ParseChannelSequence(chID); err != nil || n != c.Seq {
		vx.Violatef(t, rec, id, "channel-roundtrip", "ParseChannelSequence(%q) = (%d,%v), want %d", chID, n, err, c.Seq)
	}
	if err := host.ChannelIdentifierValidator(chID); err != nil || !channeltypes.IsValidChannelID(chID) {
		vx.Violatef(t, rec, id, "channel-id-invalid", "generated %q fails channel identifier validation: %v", chID, err)
	}
	if n, err := host.ParseIdentifier(chID, channeltypes.ChannelPrefix); err != nil || n != c.Seq {
		vx.Violatef(t, rec, id, "parseidentifier-roundtrip", "ParseIdentifier(%q) = (%d,%v), want %d", chID, n, err, c.Seq)
	}
	coID := connectiontypes.FormatConnectionIdentifier(c.Seq)
	if n, err := connectiontypes.ParseConnectionSequence(coID); err != nil || n != c.Seq {
		vx.Violatef(t, rec, id, "connection-roundtrip", "ParseConnectionSequence(%q) = (%d,%v), want %d", coID, n, err, c.Seq)
	}
	if err := host.ConnectionIdentifierValidator(coID); err != nil || !connectiontypes.IsValidConnectionID(coID) {
		vx.Violatef(t, rec, id, "connection-id-invalid", "generated %q fails connection identifier validation: %v", coID, err)
	}

	// ---- numeric-suffix probes: whatever is accepted must fit in 64 bits and be the decimal value
	val, okNum := new(big.Int).SetString(c.Digits, 10)
	if !okNum {
		vx.Harnessf("probe %q is not decimal", c.Digits)
	}
	fits := val.Cmp(c15MaxU64) <= 0
	probe := func(what, s string, got uint64, err error) {
		if err != nil {
			rec.Add("probe_rejected", 1)
			if fits {
				rec.Add("probe_rejected_but_fits", 1)
			}
			return
		}
		rec.Add("probe_accepted", 1)
		if !fits {
			vx.Violatef(t, rec, id, "accepts-overflowing-sequence", "%s(%q) accepted with sequence %d although %s does not fit in 64 bits", what, s, got, c.Digits)
		}
		if new(big.Int).SetUint64(got).Cmp(val) != 0 {
			vx.Violatef(t, rec, id, "wrong-sequence", "%s(%q) = %d, decimal value is %s", what, s, got, val)
		}
	}
	{
		s := channeltypes.ChannelPrefix + c.Digits
		n, err := channeltypes.ParseChannelSequence(s)
		probe("ParseChannelSequence", s, n, err)
		if channeltypes.IsValidChannelID(s) != (err == nil) {
			vx.Violatef(t, rec, id, "isvalid-disagrees", "IsValidChannelID(%q) disagrees with ParseChannelSequence error %v", s, err)
		}
	}
	{
		s := connectiontypes.ConnectionPrefix + c.Digits
		n, err := connectiontypes.ParseConnectionSequence(s)
		probe("ParseConnectionSequence", s, n, err)
	}
	{
		s := c.Prefix + c.Digits
		n, err := host.ParseIdentifier(s, c.Prefix)
		probe("ParseIdentifier", s, n, err)
	}
	if accepted || model {
		s := c.Type + "-" + c.Digits
		ty, n, err := clienttypes.ParseClientIdentifier(s)
		probe("ParseClientIdentifier", s, n, err)
		if err == nil && ty != c.Type {
			vx.Violatef(t, rec, id, "client-type-mismatch", "ParseClientIdentifier(%q) returned type %q, want %q", s, ty, c.Type)
		}
	}

	// ---- evidence
	hi := c.Seq >= 1<<63
	dashOrDigit := strings.ContainsAny(c.Type, "-0123456789")
	if hi {
		rec.Class("seq>=2^63")
	}
	if accepted && dashOrDigit {
		rec.Class("type-with-dash-or-digit")
	}
	if !fits {
		rec.Class("probe-overflows")
	} else if len(strings.TrimLeft(c.Digits, "0")) >= 19 {
		rec.Class("probe-19/20-digits-fits")
	}
	if strings.HasPrefix(c.Digits, "0") && len(c.Digits) > 1 {
		rec.Class("probe-leading-zeros")
	}
	if len(c.Type) >= 40 {
		rec.Class("type-length-boundary")
	}
	rec.NonTrivialIf(hi || (accepted && dashOrDigit))
}

func TestC15(t *testing.T) {
	vx.Check(t, vx.Prop[c15Case]{
		ID:        "C15",
		Rule:      "pure: case = client-type string (constructed from the accepted language incl. length boundary 40-46, known types, near misses) x sequence over full uint64 (1/3 forced >= 2^63) x decimal suffix probe (around 2^64, 2^63, 20-26 digits, k*2^64+r, leading zeros) x ParseIdentifier prefix; non-trivial = sequence >= 2^63 or an accepted client type containing '-' or digits; distinct by full case encoding",
		MinNTFrac: 0.4,
		Gen:       genC15,
		Run:       runC15,
	})
}
