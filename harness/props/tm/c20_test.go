package tm

import (
	"bytes"
	"sort"
	"testing"

	"pgregory.net/rapid"

	"github.com/cosmos/ibc-go/v11/modules/apps/callbacks/verifx/tmsim"
	"github.com/cosmos/ibc-go/v11/modules/apps/callbacks/verifx/vx"
)

// C20: once a Tendermint client stores a consensus state for a height, no later operation
// changes it; resubmitting the same header leaves it (and the whole client store) unchanged;
// a header for a stored height with a different consensus state, or valid misbehaviour,
// freezes the client instead of overwriting; only expired consensus states are ever removed.
//
// Model: `ever` = height -> first bytes seen in the raw client store (+ its timestamp).

func sortedKeys(m map[H][]byte) []H { return tmsim.SortedHeights(m) }

func runC20(outer *testing.T) func(t rapid.TB, c Case, rec *vx.Case) {
	return func(t rapid.TB, c Case, rec *vx.Case) {
		const id = "C20"
		e := newEnv(outer, t, c, false)
		ever, everTs := map[H][]byte{}, map[H]int64{}
		note := func(rs *tmsim.RawStore, ts map[H]int64) {
			for h, bz := range rs.Cons {
				if _, ok := ever[h]; !ok {
					ever[h], everTs[h] = bz, ts[h]
				}
			}
		}
		note(e.cur, e.curTs)
		var dupOK, conflictOK, pastOK, tipOK, rejected, prunes, misbFrozen, recovered int
		for i, op := range c.Ops {
			st := e.exec(i, op)
			removed := map[string]bool{}
			for _, h := range sortedKeys(ever) {
				post, ok := st.Post.Cons[h]
				if ok && !bytes.Equal(post, ever[h]) {
					vx.Violatef(t, rec, id, "stored-bytes-changed", "consensus state at %s changed from %x to %x; %s", h, ever[h], post, describe(st))
				}
				if _, was := st.Pre.Cons[h]; was && !ok {
					prunes++
					for _, k := range tmsim.KeysOf(h) {
						removed[k] = true
					}
					if !e.expiredAt(everTs[h], st.Now) {
						vx.Violatef(t, rec, id, "removed-unexpired", "consensus state at %s (ts %d) was removed at block time %d, trusting period %s: not expired; %s", h, everTs[h], st.Now.UnixNano(), e.tp, describe(st))
					}
				}
			}
			note(st.Post, st.PostTs)
			if st.Hdr != nil && st.Kind != "misb" && st.OK {
				switch {
				case st.StoredBefore && st.SameBytes:
					dupOK++
					rec.Class("resubmit-accepted")
					for _, k := range tmsim.DiffKeys(st.Pre, st.Post) {
						if !removed[k] {
							vx.Violatef(t, rec, id, "resubmit-changed-store", "resubmitting the header of stored height %s changed client-store key %q; %s", st.Hdr.H, k, describe(st))
						}
					}
				case st.StoredBefore:
					conflictOK++
					rec.Class("conflict-accepted-%s", variantOf(st))
					if !frozenCS(st.PostCS) {
						vx.Violatef(t, rec, id, "conflict-not-frozen", "a verified header for stored height %s with a different consensus state did not freeze the client; %s", st.Hdr.H, describe(st))
					}
				case st.Hdr.H.Less(latestOf(st.PreCS)) && st.TimeOK:
					pastOK++
					rec.Class("past-height-accepted")
				case st.TimeOK:
					tipOK++
				}
			}
			if st.Hdr != nil && st.HadTx && !st.OK {
				rejected++
				rec.Add("rej_"+rejReason(st.Err), 1)
			}
			if st.Kind == "misb" && st.OK {
				if st.MisbConflict {
					misbFrozen++
					rec.Class("misbehaviour-accepted-%s", st.Op.V)
					if !frozenCS(st.PostCS) {
						vx.Violatef(t, rec, id, "misbehaviour-not-frozen", "valid misbehaviour did not freeze the client; %s", describe(st))
					}
				} else {
					rec.Class("non-misbehaviour-accepted")
				}
			}
			if st.Recovered {
				recovered++
				rec.Class("recovered")
			}
		}
		if prunes > 0 {
			rec.Class("pruned")
		}
		rec.Add("resubmit_accepted", int64(dupOK))
		rec.Add("conflict_accepted", int64(conflictOK))
		rec.Add("past_accepted", int64(pastOK))
		rec.Add("tip_accepted", int64(tipOK))
		rec.Add("header_rejected", int64(rejected))
		rec.Add("pruned_states", int64(prunes))
		rec.Add("misbehaviour_froze", int64(misbFrozen))
		rec.Add("heights_ever_stored", int64(len(ever)))
		rec.NonTrivialIf(dupOK+conflictOK >= 1 && pastOK >= 1)
	}
}

func variantOf(st *step) string {
	if st.Kind == "conflict" {
		return st.Op.V
	}
	return "by-" + st.Op.K
}

var wC20 = weights{"tip": 6, "past": 6, "update": 3, "resubmit": 4, "conflict": 2, "misb": 1, "time": 5, "block": 1, "recover": 2}

func TestC20(t *testing.T) {
	vx.Check(t, vx.Prop[Case]{
		ID:          "C20",
		Rule:        "histories (<=30 ops) of header updates at arbitrary heights (tip, gap-filling, duplicates, conflicting headers for stored heights), misbehaviour, recovery, time advances (pruning) against one 07-tendermint client of a harness-signed virtual chain; non-trivial = >=1 accepted resubmission/conflict on a stored height and >=1 accepted past-height update; distinct by full history",
		MinNTFrac:   0.25,
		Assumptions: []string{"counterparty chain V is virtual: the harness owns its validator keys (ed25519 from secret val-<i>) and signs headers itself", "recovery = ClientKeeper.RecoverClient (MsgRecoverClient after its authority check); upgrades and client genesis import are not exercised", "raw client store parsed by its documented key layout; stored protobuf values decoded with the app codec"},
		Gen:         func(t *rapid.T) Case { return genCase(t, wC20, 30, func(i, n int) int { return 5 }) },
		Run:         runC20(t),
	})
}

var _ = sort.Strings
