package pktc

import (
	"bytes"
	"fmt"
	"sort"
	"time"

	clienttypes "github.com/cosmos/ibc-go/v11/modules/core/02-client/types"
	connectiontypes "github.com/cosmos/ibc-go/v11/modules/core/03-connection/types"
	channeltypes "github.com/cosmos/ibc-go/v11/modules/core/04-channel/types"
	channeltypesv2 "github.com/cosmos/ibc-go/v11/modules/core/04-channel/v2/types"
	commitmenttypes "github.com/cosmos/ibc-go/v11/modules/core/23-commitment/types"
	host "github.com/cosmos/ibc-go/v11/modules/core/24-host"
	hostv2 "github.com/cosmos/ibc-go/v11/modules/core/24-host/v2"
	ibctm "github.com/cosmos/ibc-go/v11/modules/light-clients/07-tendermint"
	ibctesting "github.com/cosmos/ibc-go/v11/testing"

	"github.com/cosmos/ibc-go/v11/modules/apps/callbacks/verifx/sim"
	"github.com/cosmos/ibc-go/v11/modules/apps/callbacks/verifx/vx"
)

// tctx is the context of one trial.
type tctx struct {
	x      *exec
	p      *sim.Pkt   // packet the valid message is about
	j      int        // its index in x.main
	others []*sim.Pkt // other packets of the same family sent in the same direction
	vc, pc int        // verifying chain (processes the message), proof chain (serves the proofs)
	side   int        // side of L that processes the message
	h      uint64     // fresh proof height of the valid message
}

func flip(b []byte, i, bit int) []byte {
	o := cp(b)
	if len(o) == 0 {
		return []byte{1}
	}
	o[i%len(o)] ^= 1 << uint(bit%8)
	return o
}

// proofKey is the key an honest proof for packet q is about (commitment for receives, ack for acks).
func (c *tctx) proofKey(q *sim.Pkt) []byte {
	if c.x.c.Prop == "C05" {
		return q.CommitmentKey()
	}
	return q.AckKey()
}

func (c *tctx) setProof(m *rmsg, key []byte, h uint64) {
	bz, _ := c.x.w.Proof(c.pc, key, h)
	if len(bz) == 0 {
		// the chain cannot serve this proof: keep the bytes, mark them as not being an honest proof
		m.Proof = flip(m.Proof, 0, 0)
		m.MCorrupt = true
		c.x.rec.Add("proof_unavailable", 1)
		return
	}
	m.Proof, m.MKey, m.MHeight, m.MChain = bz, cp(key), h, c.pc
}

func (c *tctx) other(i int) *sim.Pkt {
	if len(c.others) == 0 {
		return nil
	}
	return c.others[i%len(c.others)]
}

func (c *tctx) twin() *sim.Pkt {
	if c.j < len(c.x.twin) {
		return c.x.twin[c.j]
	}
	return nil
}

// sameProof reports whether two proof encodings decode to the same Merkle proof.
func sameProof(a, b []byte) bool {
	var pa, pb commitmenttypes.MerkleProof
	if pa.Unmarshal(a) != nil || pb.Unmarshal(b) != nil {
		return false
	}
	ea, err1 := pa.Marshal()
	eb, err2 := pb.Marshal()
	return err1 == nil && err2 == nil && bytes.Equal(ea, eb)
}

func pickStr(v int, opts ...string) string { return opts[v%len(opts)] }

// otherID picks a replacement identifier different from cur.
func otherID(v int, cur string, opts ...string) string {
	for k := 0; k < len(opts); k++ {
		if s := opts[(v+k)%len(opts)]; s != cur && s != "" {
			return s
		}
	}
	return cur
}

// apply performs one message mutation and returns the label of what was actually done.
func (c *tctx) apply(m *rmsg, mu mut) string {
	x, w := c.x, c.x.w
	L, S := x.L, x.Sib
	src, dst := c.p.Dir, 1-c.p.Dir
	np := len(m.P2.Payloads)
	switch mu.K {
	case "data":
		switch mu.V % 3 {
		case 0:
			m.P1.Data = flip(m.P1.Data, mu.I, mu.V/3)
			return "data.flip"
		case 1:
			if o := c.other(mu.I); o != nil {
				m.P1.Data = cp(o.P1.Data)
				return "data.other"
			}
		}
		m.P1.Data = append(cp(m.P1.Data), ' ')
		return "data.append"
	case "timeout-height":
		th := m.P1.TimeoutHeight
		switch mu.V % 5 {
		case 0:
			th.RevisionHeight++
			m.P1.TimeoutHeight = th
			return "toh.plus1"
		case 1:
			if th.RevisionHeight > 1 {
				th.RevisionHeight--
				m.P1.TimeoutHeight = th
				return "toh.minus1"
			}
		case 2:
			if m.P1.TimeoutTimestamp != 0 && !th.IsZero() {
				m.P1.TimeoutHeight = clienttypes.ZeroHeight()
				return "toh.zero"
			}
		case 3:
			th.RevisionNumber++
			m.P1.TimeoutHeight = th
			return "toh.rev"
		}
		m.P1.TimeoutHeight = clienttypes.NewHeight(rev(w, c.x.L.Chain[dst]), th.RevisionHeight+1_000_000)
		return "toh.far"
	case "timeout-timestamp":
		if m.V2 {
			switch mu.V % 3 {
			case 0:
				m.P2.TimeoutTimestamp++
				return "tots.plus1"
			case 1:
				m.P2.TimeoutTimestamp--
				return "tots.minus1"
			}
			m.P2.TimeoutTimestamp += 3600
			return "tots.far"
		}
		ts := m.P1.TimeoutTimestamp
		switch mu.V % 4 {
		case 0:
			m.P1.TimeoutTimestamp = ts + 1
			return "tots.plus1"
		case 1:
			if ts > 0 {
				m.P1.TimeoutTimestamp = ts - 1
				return "tots.minus1"
			}
		case 2:
			if ts != 0 && !m.P1.TimeoutHeight.IsZero() {
				m.P1.TimeoutTimestamp = 0
				return "tots.zero"
			}
		}
		m.P1.TimeoutTimestamp = uint64(w.Coord.CurrentTime.Add(100*time.Hour).UnixNano()) + ts%1000
		return "tots.far"
	case "sequence":
		s := m.seq()
		n := s + 1
		lab := "seq.plus1"
		switch mu.V % 3 {
		case 1:
			if s > 1 {
				n, lab = s-1, "seq.minus1"
			}
		case 2:
			if o := c.other(mu.I); o != nil && o.Seq() != s {
				n, lab = o.Seq(), "seq.other"
			}
		}
		if m.V2 {
			m.P2.Sequence = n
		} else {
			m.P1.Sequence = n
		}
		return lab
	case "src-port":
		m.P1.SourcePort = otherID(mu.V, m.P1.SourcePort, "transfer", "mockport2", "icahost")
		return "src-port"
	case "dst-port":
		m.P1.DestinationPort = otherID(mu.V, m.P1.DestinationPort, "transfer", "mockport2", "icahost")
		return "dst-port"
	case "src-channel":
		m.P1.SourceChannel = otherID(mu.V, m.P1.SourceChannel, S.ID(src), L.ID(dst), "channel-77", S.ID(dst))
		return "src-channel"
	case "dst-channel":
		m.P1.DestinationChannel = otherID(mu.V, m.P1.DestinationChannel, S.ID(dst), L.ID(src), "channel-77", S.ID(src))
		return "dst-channel"
	case "src-client":
		m.P2.SourceClient = otherID(mu.V, m.P2.SourceClient, S.ID(src), L.ID(dst), L.Client(src), "07-tendermint-77", "channel-0", S.ID(dst))
		return "src-client"
	case "dst-client":
		m.P2.DestinationClient = otherID(mu.V, m.P2.DestinationClient, S.ID(dst), L.ID(src), L.Client(dst), "07-tendermint-77", "channel-0", S.ID(src))
		return "dst-client"
	case "swap-ends":
		if m.V2 {
			m.P2.SourceClient, m.P2.DestinationClient = m.P2.DestinationClient, m.P2.SourceClient
		} else {
			m.P1.SourcePort, m.P1.DestinationPort = m.P1.DestinationPort, m.P1.SourcePort
			m.P1.SourceChannel, m.P1.DestinationChannel = m.P1.DestinationChannel, m.P1.SourceChannel
		}
		return "swap-ends"
	case "pl-value", "pl-srcport", "pl-dstport", "pl-version", "pl-encoding":
		if np == 0 {
			return ""
		}
		pl := &m.P2.Payloads[mu.I%np]
		switch mu.K {
		case "pl-value":
			switch mu.V % 3 {
			case 0:
				pl.Value = flip(pl.Value, mu.I/np, mu.V/3)
				return "pl-value.flip"
			case 1:
				if o := c.other(mu.I); o != nil && len(o.P2.Payloads) > 0 {
					pl.Value = cp(o.P2.Payloads[0].Value)
					return "pl-value.other"
				}
			}
			pl.Value = append(cp(pl.Value), ' ')
			return "pl-value.append"
		case "pl-srcport":
			pl.SourcePort = otherID(mu.V, pl.SourcePort, "mockv2A", "mockv2B", "transfer")
		case "pl-dstport":
			pl.DestinationPort = otherID(mu.V, pl.DestinationPort, "mockv2A", "mockv2B", "transfer")
		case "pl-version":
			pl.Version = otherID(mu.V, pl.Version, "mock-version-2", "ics20-1", "mock-versio")
		case "pl-encoding":
			pl.Encoding = otherID(mu.V, pl.Encoding, "application/x-protobuf", "application/JSON", "application/json ")
		}
		return mu.K
	case "pl-order":
		if np >= 2 {
			a, b := mu.I%np, (mu.I+1+mu.V%(np-1))%np
			m.P2.Payloads[a], m.P2.Payloads[b] = m.P2.Payloads[b], m.P2.Payloads[a]
			return "pl-order"
		}
		fallthrough
	case "pl-dup":
		if np == 0 {
			return ""
		}
		d := m.P2.Payloads[mu.I%np]
		d.Value = cp(d.Value)
		m.P2.Payloads = append(m.P2.Payloads, d)
		return "pl-dup"
	case "pl-drop":
		if np == 0 {
			return ""
		}
		k := mu.I % np
		m.P2.Payloads = append(append([]channeltypesv2.Payload{}, m.P2.Payloads[:k]...), m.P2.Payloads[k+1:]...)
		if np == 1 {
			return "pl-drop.all"
		}
		return "pl-drop"
	case "proof-flip":
		n := flip(m.Proof, mu.I, mu.V)
		if !sameProof(n, m.Proof) {
			m.MCorrupt = true
		}
		m.Proof = n
		return "proof-flip"
	case "proof-trunc":
		if len(m.Proof) < 2 {
			return ""
		}
		drop := 1 + (mu.I*7+mu.V)%(len(m.Proof)-1)
		if mu.V%2 == 0 {
			drop = 1 + mu.V%8%(len(m.Proof)-1)
		}
		m.Proof = cp(m.Proof[:len(m.Proof)-drop])
		m.MCorrupt = true
		return "proof-trunc"
	case "proof-other-key":
		var keys [][]byte
		if m.V2 {
			keys = [][]byte{hostv2.PacketReceiptKey(c.p.P2.DestinationClient, c.p.P2.Sequence), hostv2.NextSequenceSendKey(c.p.P2.SourceClient),
				host.FullClientStateKey(L.Client(1 - c.side)), hostv2.PacketAcknowledgementKey(c.p.P2.SourceClient, c.p.P2.Sequence),
				hostv2.PacketCommitmentKey(c.p.P2.DestinationClient, c.p.P2.Sequence)}
		} else {
			q := c.p.P1
			keys = [][]byte{host.PacketReceiptKey(q.DestinationPort, q.DestinationChannel, q.Sequence), host.NextSequenceAckKey(q.SourcePort, q.SourceChannel),
				host.ChannelKey(L.Port(1-c.side), L.ID(1-c.side)), host.PacketAcknowledgementKey(q.SourcePort, q.SourceChannel, q.Sequence),
				host.PacketCommitmentKey(q.DestinationPort, q.DestinationChannel, q.Sequence), host.NextSequenceRecvKey(q.DestinationPort, q.DestinationChannel)}
		}
		k := keys[mu.V%len(keys)]
		if bytes.Equal(k, m.MKey) {
			k = keys[(mu.V+1)%len(keys)]
		}
		c.setProof(m, k, m.MHeight)
		return "proof-other-key"
	case "proof-keyswap":
		// the key the honest proof would have if the identifiers of the two ends were confused
		var k []byte
		switch {
		case m.V2 && m.IsAck:
			k = hostv2.PacketAcknowledgementKey(c.p.P2.SourceClient, c.p.P2.Sequence)
		case m.V2:
			k = hostv2.PacketCommitmentKey(c.p.P2.DestinationClient, c.p.P2.Sequence)
		case m.IsAck:
			k = host.PacketAcknowledgementKey(c.p.P1.SourcePort, c.p.P1.SourceChannel, c.p.P1.Sequence)
		default:
			k = host.PacketCommitmentKey(c.p.P1.DestinationPort, c.p.P1.DestinationChannel, c.p.P1.Sequence)
		}
		c.setProof(m, k, m.MHeight)
		return "proof-keyswap"
	case "proof-twin":
		if t := c.twin(); t != nil {
			c.setProof(m, c.proofKey(t), m.MHeight)
			return "proof-twin"
		}
		fallthrough
	case "proof-other-packet":
		if o := c.other(mu.I); o != nil {
			c.setProof(m, c.proofKey(o), m.MHeight)
			return "proof-other-packet"
		}
		return ""
	case "proof-other-height", "proofheight-other":
		var hs []uint64
		for _, v := range w.StoredHeights(L, c.side) {
			if v != m.MHeight && v >= 2 {
				hs = append(hs, v)
			}
		}
		if len(hs) == 0 {
			return ""
		}
		// prefer recent heights: the interesting ones are those at which the proven entry already existed
		k := len(hs) - 1 - mu.I%len(hs)
		if mu.V%2 == 0 {
			k = len(hs) - 1 - mu.I%minInt(len(hs), 4)
		}
		if mu.K == "proofheight-other" {
			m.PH.RevisionHeight = hs[k]
			return "proofheight-other"
		}
		c.setProof(m, m.MKey, hs[k])
		return "proof-other-height"
	case "proofheight-plus1":
		if mu.V%2 == 0 || m.PH.RevisionHeight < 3 {
			m.PH.RevisionHeight++
			return "proofheight.plus1"
		}
		m.PH.RevisionHeight--
		return "proofheight.minus1"
	case "proofheight-rev":
		if mu.V%2 == 0 {
			m.PH.RevisionNumber++
		} else {
			m.PH.RevisionNumber = 0
		}
		return "proofheight-rev"
	case "signer":
		m.Sig = (m.Sig + 1 + mu.V%2) % 3
		return "signer"
	case "twin-src":
		if m.V2 {
			if c.j < len(x.rtwin) {
				t := x.rtwin[c.j]
				m.P2.SourceClient = t.P2.SourceClient
				c.setProof(m, t.CommitmentKey(), m.MHeight)
				if t.P2.Sequence == c.p.P2.Sequence {
					x.rec.Add("twin_exact", 1)
				}
				return "twin-src"
			}
			m.P2.SourceClient = otherID(mu.V, m.P2.SourceClient, S.ID(src), L.ID(dst))
			return "twin-src.idonly"
		}
		if t := c.twin(); t != nil {
			m.P1.SourceChannel = t.P1.SourceChannel
			c.setProof(m, t.CommitmentKey(), m.MHeight)
			if t.P1.Sequence == c.p.P1.Sequence {
				x.rec.Add("twin_exact", 1)
			}
			return "twin-src"
		}
		m.P1.SourceChannel = otherID(mu.V, m.P1.SourceChannel, S.ID(src), L.ID(dst))
		return "twin-src.idonly"
	case "twin-dst":
		if t := c.twin(); t != nil && x.recvd[t.Idx] {
			m.P1.DestinationChannel = t.P1.DestinationChannel
			c.setProof(m, t.AckKey(), m.MHeight)
			if t.P1.Sequence == c.p.P1.Sequence && bytes.Equal(t.Ack1, c.p.Ack1) {
				x.rec.Add("twin_exact", 1)
			}
			return "twin-dst"
		}
		m.P1.DestinationChannel = otherID(mu.V, m.P1.DestinationChannel, S.ID(dst), L.ID(src))
		return "twin-dst.idonly"
	case "ack-flip":
		m.A1 = flip(m.A1, mu.I, mu.V)
		return "ack-flip"
	case "ack-other":
		if mu.V%2 == 0 {
			for k := 0; k < len(c.others); k++ {
				if o := c.other(mu.I + k); o.Ack1 != nil && !bytes.Equal(o.Ack1, m.A1) {
					m.A1 = cp(o.Ack1)
					return "ack-other.packet"
				}
			}
		}
		var a channeltypes.Acknowledgement
		if channeltypes.SubModuleCdc.UnmarshalJSON(m.A1, &a) == nil && a.Success() {
			m.A1 = sim.ErrAck().Acknowledgement()
			return "ack-other.to-error"
		}
		m.A1 = sim.OKAck(int(c.p.Seq()) + 990).Acknowledgement()
		return "ack-other.to-success"
	case "ack-reencode":
		switch mu.V % 4 {
		case 0:
			m.A1 = bytes.Replace(m.A1, []byte(`":"`), []byte(`": "`), 1)
		case 1:
			m.A1 = append(cp(m.A1), '\n')
		case 2:
			m.A1 = append([]byte(" "), m.A1...)
		default:
			m.A1 = bytes.Replace(m.A1, []byte(`{"`), []byte("{\t\""), 1)
		}
		return "ack-reencode"
	case "acks-flip":
		n := len(m.A2.AppAcknowledgements)
		if n == 0 {
			return ""
		}
		k := mu.I % n
		if mu.V%2 == 1 {
			k = n - 1 // the last one
		}
		m.A2.AppAcknowledgements[k] = flip(m.A2.AppAcknowledgements[k], mu.I/n, mu.V/2)
		return "acks-flip"
	case "acks-other":
		for k := 0; k < len(c.others); k++ {
			if o := c.other(mu.I + k); o.Ack2 != nil && !eqA2(*o.Ack2, m.A2) {
				m.A2 = channeltypesv2.Acknowledgement{}
				for _, a := range o.Ack2.AppAcknowledgements {
					m.A2.AppAcknowledgements = append(m.A2.AppAcknowledgements, cp(a))
				}
				return "acks-other"
			}
		}
		m.A2.AppAcknowledgements = [][]byte{sim.OKAck2(int(c.p.Seq()) + 990)}
		return "acks-other.forged"
	case "acks-reorder":
		n := len(m.A2.AppAcknowledgements)
		if n >= 2 {
			a, b := mu.I%n, (mu.I+1+mu.V%(n-1))%n
			m.A2.AppAcknowledgements[a], m.A2.AppAcknowledgements[b] = m.A2.AppAcknowledgements[b], m.A2.AppAcknowledgements[a]
			return "acks-reorder"
		}
		fallthrough
	case "acks-append":
		n := len(m.A2.AppAcknowledgements)
		extra := []byte("ok2-extra")
		if mu.V%2 == 1 && n > 0 {
			extra = cp(m.A2.AppAcknowledgements[n-1])
		}
		m.A2.AppAcknowledgements = append(m.A2.AppAcknowledgements, extra)
		return "acks-append"
	case "acks-drop":
		n := len(m.A2.AppAcknowledgements)
		if n >= 2 {
			k := mu.I % n
			if mu.V%2 == 1 {
				k = n - 1
			}
			m.A2.AppAcknowledgements = append(append([][]byte{}, m.A2.AppAcknowledgements[:k]...), m.A2.AppAcknowledgements[k+1:]...)
			return "acks-drop"
		}
		fallthrough
	case "acks-sentinel":
		if len(m.A2.AppAcknowledgements) == 1 && bytes.Equal(m.A2.AppAcknowledgements[0], channeltypesv2.ErrorAcknowledgement[:]) {
			m.A2.AppAcknowledgements = nil
			for i := range m.P2.Payloads {
				m.A2.AppAcknowledgements = append(m.A2.AppAcknowledgements, sim.OKAck2(100+10*c.j+i))
			}
			return "acks-sentinel.to-success"
		}
		m.A2.AppAcknowledgements = [][]byte{cp(channeltypesv2.ErrorAcknowledgement[:])}
		return "acks-sentinel"
	}
	vx.Harnessf("unknown mutation kind %q", mu.K)
	return ""
}

func minInt(a, b int) int {
	if a < b {
		return a
	}
	return b
}

var envOrder = map[string]int{"env-chan": 0, "env-conn": 1, "env-frozen": 2, "env-expired": 3, "env-timeout": 4}

// applyEnv performs the environment mutations of a trial (direct writes first, clock/height moves last) and
// returns their labels.
func (c *tctx) applyEnv(muts []mut) []string {
	x, w := c.x, c.x.w
	var env []mut
	for _, m := range muts {
		if isEnv(m.K) {
			env = append(env, m)
		}
	}
	sort.SliceStable(env, func(i, j int) bool { return envOrder[env[i].K] < envOrder[env[j].K] })
	L := x.L
	base := L
	if L.Base != nil {
		base = L.Base
	}
	vc := c.vc
	var labels []string
	for _, mu := range env {
		switch mu.K {
		case "env-chan":
			port, id := base.Port(c.side), base.ID(c.side)
			if mu.V%4 == 0 {
				res := w.Deliver(vc, 0, channeltypes.NewMsgChannelCloseInit(port, id, w.Addr(vc, 0).String()))
				if !res.OK {
					vx.Harnessf("MsgChannelCloseInit failed: %v", res.Err)
				}
				labels = append(labels, "env-chan.close-tx")
				break
			}
			st := []channeltypes.State{channeltypes.CLOSED, channeltypes.INIT, channeltypes.TRYOPEN, channeltypes.CLOSED}[mu.V%4]
			k := w.App(vc).IBCKeeper.ChannelKeeper
			ch, ok := k.GetChannel(w.Ctx(vc), port, id)
			if !ok {
				vx.Harnessf("channel %s/%s not found", port, id)
			}
			ch.State = st
			k.SetChannel(w.Ctx(vc), port, id, ch)
			w.Block(vc, 1)
			labels = append(labels, "env-chan."+st.String())
		case "env-conn":
			k := w.App(vc).IBCKeeper.ConnectionKeeper
			ch, ok := w.App(vc).IBCKeeper.ChannelKeeper.GetChannel(w.Ctx(vc), base.Port(c.side), base.ID(c.side))
			if !ok {
				vx.Harnessf("channel not found")
			}
			conn, ok := k.GetConnection(w.Ctx(vc), ch.ConnectionHops[0])
			if !ok {
				vx.Harnessf("connection not found")
			}
			conn.State = []connectiontypes.State{connectiontypes.INIT, connectiontypes.TRYOPEN, connectiontypes.UNINITIALIZED}[mu.V%3]
			k.SetConnection(w.Ctx(vc), ch.ConnectionHops[0], conn)
			w.Block(vc, 1)
			labels = append(labels, "env-conn."+conn.State.String())
		case "env-frozen":
			k := w.App(vc).IBCKeeper.ClientKeeper
			cs, ok := k.GetClientState(w.Ctx(vc), L.Client(c.side))
			tm, ok2 := cs.(*ibctm.ClientState)
			if !ok || !ok2 {
				vx.Harnessf("client state of %s not found", L.Client(c.side))
			}
			tm.FrozenHeight = clienttypes.NewHeight(0, 1)
			k.SetClientState(w.Ctx(vc), L.Client(c.side), tm)
			w.Block(vc, 1)
			x.frozen = true
			labels = append(labels, "env-frozen")
		case "env-expired":
			if mu.V%3 == 2 {
				w.AdvanceTime(ibctesting.TrustingPeriod - 2*time.Hour)
				labels = append(labels, "env-expired.almost")
			} else {
				w.AdvanceTime(ibctesting.TrustingPeriod + time.Duration(1+mu.I%48)*time.Hour)
				x.expired = true
				labels = append(labels, "env-expired")
			}
		case "env-timeout":
			labels = append(labels, c.envTimeout(mu))
		}
	}
	return labels
}

// envTimeout moves the destination chain of packet p to (just before / exactly at / past) p's timeout.
func (c *tctx) envTimeout(mu mut) string {
	w := c.x.w
	dc := w.DstChain(c.p)
	delta := []int64{0, 0, 1, 3, -1}[mu.V%5]
	var th clienttypes.Height
	var tsec int64
	if c.p.V2 {
		tsec = int64(c.p.P2.TimeoutTimestamp)
	} else {
		th = c.p.P1.TimeoutHeight
		tsec = int64(c.p.P1.TimeoutTimestamp / 1_000_000_000)
	}
	useHeight := !th.IsZero() && (tsec == 0 || mu.I%2 == 0)
	if useHeight {
		target := int64(th.RevisionHeight) + delta
		if target-w.Chains[dc].ProposedHeader.Height > 400 {
			return "env-timeout.skipped"
		}
		for w.Chains[dc].ProposedHeader.Height < target {
			w.Block(dc, 1)
		}
		return fmt.Sprintf("env-timeout.height%+d", delta)
	}
	target := time.Unix(tsec+delta, 0)
	if d := target.Sub(w.Coord.CurrentTime); d > 0 {
		w.AdvanceTime(d)
	}
	return fmt.Sprintf("env-timeout.time%+d", delta)
}
