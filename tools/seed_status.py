#!/usr/bin/env python3
import json, glob, os
for d in sorted(glob.glob('/verif/seeded/*/')):
    n = os.path.basename(d.rstrip('/'))
    try:
        m = json.load(open(d + 'meta.json'))
    except Exception as e:
        print(n, 'no meta', e); continue
    c = m.get('confirmed', [])
    if not c:
        print(n, 'PENDING'); continue
    x = c[-1]
    print(n, '| demo w/o:', str(x.get('demo_without_patch', '-'))[:6], '| with:', str(x.get('demo_with_patch', '-'))[:6], '| pkgtests:', 'ok' if all(v == 'ok' for v in (x.get('touched_pkg_tests_with_patch') or {}).values()) else x.get('touched_pkg_tests_with_patch'), '|', {k: ('DETECTED' if v['detected'] else 'missed rc=%s' % v['exit']) for k, v in x['checks'].items()})
