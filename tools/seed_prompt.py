#!/usr/bin/env python3
"""print the prompt for an independent 'break this property' agent: tools/seed_prompt.py C01 [variant-hint]"""
import json, sys
pid = sys.argv[1]
hint = sys.argv[2] if len(sys.argv) > 2 else ""
for l in open('/verif/properties.jsonl'):
    p = json.loads(l)
    if p['id'] == pid:
        break
wt = "/tmp/seed-%s%s" % (pid, ("-" + sys.argv[3]) if len(sys.argv) > 3 else "")
print(f"""You are helping to evaluate a test suite for cosmos/ibc-go (Go; module github.com/cosmos/ibc-go/v11). Your job is to play a careless-but-plausible developer: produce ONE small source change to ibc-go that BREAKS the semantic property below while the code still compiles and the repository's existing tests still pass, plus a demonstration that proves the property is broken.

PROPERTY {p['id']}: {p['title']}
{p['statement']}

Your private scratch checkout of the repository is the git worktree `{wt}` (already created, clean, at the pinned commit). Work ONLY inside it. Do not read or write anything under /verif or /repo (the evaluation is blind: you must not look at any existing verification machinery), and do not touch other directories under /tmp or /var/tmp.

Environment (no network at all; set this in every shell call):
  export PATH=/root/go/pkg/mod/golang.org/toolchain@v0.0.1-go1.26.5.linux-amd64/bin:$PATH GOTOOLCHAIN=local GOFLAGS=-mod=mod GOPROXY=off GOSUMDB=off
The machine is shared and busy: run only the tests you need (`go test ./modules/...pkg/...`), with `-count=1`, never the whole repository at once unless it is the final confirmation of the packages that import what you changed.

Requirements for the change:
1. It must break the property as stated — an observable violation, not a refactor.
2. It must compile, and ALL existing tests of the packages you touched and of the packages that import them must still pass unchanged (you may not edit or delete existing tests). State exactly which `go test` commands you ran and their results. If an existing test catches your change, pick a different change.
3. It must need something SPECIFIC to manifest — a particular interleaving or ordering of messages, a multi-step sequence of operations, an unusual or boundary input, a fault at a particular point, or two cooperating code sites that each look fine alone — NOT something ordinary use would expose at once (e.g. not "every packet receive fails"). {hint}
4. It should look like a realistic mistake or 'optimisation' a maintainer could plausibly merge (off-by-one at a boundary, a dropped guard on one code path, a wrong key or field in one branch, a reordered check, a cache/early-return that skips a step in one case…), small (a few lines, at most two sites).
5. Add NO new files to the change other than your demonstration.

Deliverables, all inside `{wt}/SEED/` (create the directory):
- `patch.diff`: `git diff` of the source change ONLY (without the demonstration), applicable with `git apply` at the repository root.
- the demonstration: a Go test file (say where it must be placed, e.g. `modules/core/04-channel/keeper/seed_demo_test.go`) or a small program that FAILS with the change applied and PASSES without it; keep a copy in SEED/ and give the exact command to run it. Verify both directions yourself (git stash / apply).
- `meta.json`: {{"property": "{p['id']}", "summary": "<one line: what was changed>", "needs": "<what specific input/sequence/interleaving is needed for the violation to manifest>", "files": [...], "demo_file": "<repo-relative path where the demo test goes>", "demo_cmd": "<command>", "tests_run": ["<go test commands that still pass with the change>"]}}

Finish by leaving the worktree with the change NOT applied (git checkout -- . ; remove the demo file from the tree; keep only SEED/). Reply with a short summary: the change, why it breaks the property, what it needs to manifest, and the commands you ran with their outcomes.""")
