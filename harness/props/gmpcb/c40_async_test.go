package gmpcb

import (
	"errors"
	"fmt"
	"math"
	"strconv"
	"testing"

	"pgregory.net/rapid"

	storetypes "github.com/cosmos/cosmos-sdk/store/v2/types"
	sdk "github.com/cosmos/cosmos-sdk/types"

	transfertypes "github.com/cosmos/ibc-go/v11/modules/apps/transfer/types"
	clienttypes "github.com/cosmos/ibc-go/v11/modules/core/02-client/types"
	channeltypes "github.com/cosmos/ibc-go/v11/modules/core/04-channel/types"
	channeltypesv2 "github.com/cosmos/ibc-go/v11/modules/core/04-channel/v2/types"
	"github.com/cosmos/ibc-go/v11/modules/core/api"
	ibcexported "github.com/cosmos/ibc-go/v11/modules/core/exported"
	ibctesting "github.com/cosmos/ibc-go/v11/testing"

	"github.com/cosmos/ibc-go/v11/modules/apps/callbacks/verifx/sim"
	"github.com/cosmos/ibc-go/v11/modules/apps/callbacks/verifx/vx"
)

// C40 (c): the ASYNCHRONOUS acknowledgement path. The callbacks middleware's
// WriteAcknowledgement (v1: the transfer keeper's ICS4Wrapper; v2: the module routed on the
// transfer port) is called directly, as an application writing an acknowledgement later
// would, on a context with a finite transaction gas meter. The destination (receive-type)
// callback is a scripted contract.
//
// Oracle (P = gas the path consumes before the callback, measured per case with a no-op
// contract on an unlimited meter; remAtCb = remaining - P; commit = capped user limit;
// exec = min(remAtCb, commit)):
//   - the contract runs under a meter of limit exec, and the gas charged to the transaction
//     for the callback (total - P) is <= exec;
//   - contract error / panic / out of gas (also swallowed): its state change is absent,
//     WriteAcknowledgement returns nil without panicking and the acknowledgement is written -
//     except out of gas with exec < commit, which must abort with an out-of-gas panic.

type c40aCase struct {
	V2       bool   `json:"v2,omitempty"`
	Seq      uint64 `json:"seq"`
	Rem      uint64 `json:"rem"` // gas remaining on the transaction meter when WriteAcknowledgement is called
	Infinite bool   `json:"infinite,omitempty"`
	UserForm int    `json:"user_form"` // 0 absent, 2 decimal string
	User     uint64 `json:"user"`
	Work     uint64 `json:"work"` // gas the contract consumes before acting
	Beh      string `json:"beh"`  // ok | err | panic | oog | oogerr | oognil
}

const asyncPreEstimate = 25_000 // rough gas used before the callback; only steers the generator

func genC40a(t *rapid.T) c40aCase {
	c := c40aCase{V2: rapid.Bool().Draw(t, "v2"), Seq: rapid.Uint64Range(1, 5).Draw(t, "seq")}
	switch rapid.IntRange(0, 4).Draw(t, "userKind") {
	case 0:
		c.UserForm = 0
	case 1:
		c.UserForm, c.User = 2, vx.Near(t, cbMaxGas, "userNearMax")
	case 2:
		c.UserForm, c.User = 2, rapid.SampledFrom([]uint64{0, 1, 2 * cbMaxGas, math.MaxUint64}).Draw(t, "userConst")
	default:
		c.UserForm, c.User = 2, rapid.Uint64Range(1, cbMaxGas).Draw(t, "user")
	}
	user := uint64(0)
	if c.UserForm == 2 {
		user = c.User
	}
	commit := modelCommit(user, cbMaxGas)
	var atCb uint64 // intended remaining gas at the callback
	switch rapid.IntRange(0, 6).Draw(t, "remKind") {
	case 0:
		atCb = vx.Near(t, commit, "remNearCommit")
	case 1, 2:
		atCb = rapid.Uint64Range(0, commit).Draw(t, "remBelow")
	case 3:
		c.Infinite = true
		atCb = math.MaxUint64 - asyncPreEstimate
	case 4:
		atCb = 0
	default:
		atCb = commit + rapid.Uint64Range(0, 9_000_000).Draw(t, "remExtra")
	}
	c.Rem = atCb + asyncPreEstimate
	if rapid.IntRange(0, 19).Draw(t, "tiny") == 0 {
		c.Rem = rapid.Uint64Range(0, asyncPreEstimate).Draw(t, "remTiny") // may run out before the callback
	}
	exec := min(atCb, commit)
	switch rapid.IntRange(0, 5).Draw(t, "workKind") {
	case 0:
		c.Work = 0
	case 1:
		c.Work = vx.Near(t, exec, "workNearExec")
	case 2:
		if exec > 0 {
			c.Work = rapid.Uint64Range(0, exec).Draw(t, "workBelow")
		}
	case 3:
		c.Work = exec + rapid.Uint64Range(1, 2_000_000).Draw(t, "workAbove") // above the callback limit, often still below the tx limit
	default:
		c.Work = rapid.Uint64Range(0, 20_000).Draw(t, "workSmall")
	}
	c.Beh = rapid.SampledFrom([]string{"ok", "ok", "err", "panic", "oog", "oogerr", "oognil"}).Draw(t, "beh")
	return c
}

type asyncWorld struct {
	w          *cbWorld
	chanA      string // v1 channel ids
	chanB      string
	cliA, cliB string // v2 client ids
}

func newAsyncWorld(outer *testing.T) *asyncWorld {
	w := newCbWorld(outer)
	aw := &asyncWorld{w: w}
	sim.Guard("async world setup", func() {
		p := w.Path
		p.EndpointA.ChannelConfig.PortID, p.EndpointB.ChannelConfig.PortID = ibctesting.TransferPort, ibctesting.TransferPort
		p.EndpointA.ChannelConfig.Version, p.EndpointB.ChannelConfig.Version = transfertypes.V1, transfertypes.V1
		p.Setup()
		aw.chanA, aw.chanB = p.EndpointA.ChannelID, p.EndpointB.ChannelID
		p2 := ibctesting.NewPath(w.A, w.B)
		p2.SetupV2()
		aw.cliA, aw.cliB = p2.EndpointA.ClientID, p2.EndpointB.ClientID
	})
	return aw
}

type asyncObs struct {
	invoked  bool
	limit    uint64
	meter    storetypes.GasMeter
	gasPanic bool
}

func runC40a(aw *asyncWorld) func(rapid.TB, c40aCase, *vx.Case) {
	w := aw.w
	app := cbApp(w.B)
	k := app.MockContractKeeper
	return func(t rapid.TB, c c40aCase, rec *vx.Case) {
		user := uint64(0)
		gl := ""
		if c.UserForm == 2 {
			user = c.User
			gl = fmt.Sprintf(`, "gas_limit":"%s"`, strconv.FormatUint(c.User, 10))
		}
		memo := fmt.Sprintf(`{"dest_callback": {"address":"dst-contract"%s}}`, gl)
		data := transfertypes.NewFungibleTokenPacketData(sdk.DefaultBondDenom, "1", ibctesting.TestAccAddress, w.B.SenderAccount.GetAddress().String(), memo)
		commit := modelCommit(user, cbMaxGas)

		// one attempt = fresh branch of B's state, the given contract, the given meter
		attempt := func(meter storetypes.GasMeter, contract func(sdk.Context) error) (ctx sdk.Context, err error, panicVal any) {
			base, _ := w.B.GetContext().CacheContext()
			free := base.WithGasMeter(storetypes.NewInfiniteGasMeter())
			ctx = base.WithGasMeter(meter)
			k.IBCReceivePacketCallbackFn = func(cctx sdk.Context, _ ibcexported.PacketI, _ ibcexported.Acknowledgement, _, _ string) error {
				return contract(cctx)
			}
			func() {
				defer func() { panicVal = recover() }()
				if c.V2 {
					pl := channeltypesv2.NewPayload(transfertypes.PortID, transfertypes.PortID, transfertypes.V1, transfertypes.EncodingJSON, data.GetBytes())
					pkt := channeltypesv2.NewPacket(c.Seq, aw.cliA, aw.cliB, uint64(free.BlockTime().Unix())+3600, pl)
					// what an asynchronous receive leaves behind
					app.IBCKeeper.ChannelKeeperV2.SetAsyncPacket(free, aw.cliB, c.Seq, pkt)
					app.IBCKeeper.ChannelKeeperV2.SetPacketReceipt(free, aw.cliB, c.Seq)
					mw, ok := app.IBCKeeper.ChannelKeeperV2.Router.Route(ibctesting.TransferPort).(api.WriteAcknowledgementWrapper)
					if !ok {
						vx.Harnessf("v2 transfer route is not a WriteAcknowledgementWrapper")
					}
					err = mw.WriteAcknowledgement(ctx, aw.cliB, c.Seq, channeltypesv2.NewAcknowledgement([]byte("async-ok")))
				} else {
					pkt := channeltypes.Packet{Sequence: c.Seq, SourcePort: transfertypes.PortID, SourceChannel: aw.chanA, DestinationPort: transfertypes.PortID,
						DestinationChannel: aw.chanB, Data: data.GetBytes(), TimeoutHeight: clienttypes.NewHeight(1, 100000)}
					err = app.TransferKeeper.GetICS4Wrapper().WriteAcknowledgement(ctx, pkt, channeltypes.NewResultAcknowledgement([]byte{1}))
				}
			}()
			if he, ok := panicVal.(vx.HarnessError); ok {
				panic(he)
			}
			if tn := fmt.Sprintf("%T", panicVal); tn == "rapid.invalidData" || tn == "rapid.stopTest" {
				panic(panicVal)
			}
			return ctx, err, panicVal
		}
		ackWritten := func(ctx sdk.Context) bool {
			free := ctx.WithGasMeter(storetypes.NewInfiniteGasMeter())
			if c.V2 {
				return app.IBCKeeper.ChannelKeeperV2.HasPacketAcknowledgement(free, aw.cliB, c.Seq)
			}
			return app.IBCKeeper.ChannelKeeper.HasPacketAcknowledgement(free, transfertypes.PortID, aw.chanB, c.Seq)
		}
		counter := func(ctx sdk.Context) uint8 {
			return k.GetStateEntryCounter(ctx.WithGasMeter(storetypes.NewInfiniteGasMeter()))
		}

		// ---- calibration: gas consumed by everything but the callback
		calMeter := storetypes.NewInfiniteGasMeter()
		calInvoked := false
		calCtx, calErr, calPanic := attempt(calMeter, func(sdk.Context) error { calInvoked = true; return nil })
		if calErr != nil || calPanic != nil || !calInvoked || !ackWritten(calCtx) {
			vx.Harnessf("calibration run failed: err=%v panic=%v invoked=%v", calErr, calPanic, calInvoked)
		}
		pre := calMeter.GasConsumed()

		// ---- the case
		var obs asyncObs
		contract := func(cctx sdk.Context) (err error) {
			obs.invoked, obs.limit, obs.meter = true, cctx.GasMeter().Limit(), cctx.GasMeter()
			swallow := c.Beh == "oogerr" || c.Beh == "oognil"
			defer func() {
				if r := recover(); r != nil {
					if s, ok := r.(string); ok && s == "contract panic" {
						panic(r)
					}
					obs.gasPanic = true
					if !swallow {
						panic(r)
					}
					err = errors.New("contract ran out of gas")
					if c.Beh == "oognil" {
						err = nil
					}
				}
			}()
			k.IncrementStateEntryCounter(cctx) // the contract's own state change
			cctx.GasMeter().ConsumeGas(c.Work, "contract work")
			switch c.Beh {
			case "err":
				return errors.New("contract error")
			case "panic":
				panic("contract panic")
			case "oog", "oogerr", "oognil":
				cctx.GasMeter().ConsumeGas(cctx.GasMeter().GasRemaining()+1, "contract burns all gas")
			}
			return nil
		}
		var meter storetypes.GasMeter = storetypes.NewGasMeter(c.Rem)
		remaining := c.Rem
		if c.Infinite {
			meter, remaining = storetypes.NewInfiniteGasMeter(), math.MaxUint64
		}
		c0 := counter(calCtx) // calibration contract writes nothing: same as the base state
		ctx, err, panicVal := attempt(meter, contract)
		panicked := panicVal != nil
		total := meter.GasConsumed()
		desc := fmt.Sprintf("v2=%v seq=%d remaining=%d pre=%d user=%d commit=%d work=%d beh=%s -> invoked=%v limitSeen=%d err=%v panic=%v totalGas=%d",
			c.V2, c.Seq, remaining, pre, user, commit, c.Work, c.Beh, obs.invoked, obs.limit, err, panicVal, total)

		ver := map[bool]string{false: "v1", true: "v2"}[c.V2]
		if !obs.invoked {
			if remaining < pre {
				rec.Class("%s/out-of-gas-before-callback", ver)
				rec.Add("oog_before_callback", 1)
				return
			}
			vx.Harnessf("callback not invoked: %s", desc)
		}
		atCb := remaining - pre
		exec := min(atCb, commit)
		retry := exec < commit
		if obs.limit != exec {
			vx.Violatef(t, rec, c40, "callback-meter-limit", "async destination callback ran under a gas limit of %d, want min(remaining at callback %d, commit %d) = %d; %s", obs.limit, atCb, commit, exec, desc)
		}
		if total < pre {
			vx.Harnessf("total gas %d below calibrated pre-callback gas %d", total, pre)
		}
		if charged := total - pre; charged > exec {
			vx.Violatef(t, rec, c40, "gas-charged-exceeds-exec-limit", "async destination callback charged %d gas to the transaction, limit %d; %s", charged, exec, desc)
		}
		pastLimit := obs.meter.IsPastLimit()
		failed := c.Beh != "ok" || obs.gasPanic || pastLimit
		outcome := c.Beh
		if c.Beh == "ok" && (obs.gasPanic || pastLimit) {
			outcome = "oog-by-work"
		}
		if pastLimit && retry {
			rec.Class("%s/retry-abort/%s", ver, outcome)
			if !panicked {
				vx.Violatef(t, rec, c40, "retry-oog-did-not-abort", "async callback out of gas with exec < commit must abort the transaction, got err=%v; %s", err, desc)
			} else if _, ok := panicVal.(storetypes.ErrorOutOfGas); !ok {
				vx.Violatef(t, rec, c40, "retry-oog-did-not-abort", "async callback out of gas with exec < commit must abort with an out-of-gas panic, got %T; %s", panicVal, desc)
			}
		} else {
			rec.Class("%s/%s", ver, outcome)
			if panicked {
				vx.Violatef(t, rec, c40, "callback-panic-escapes", "WriteAcknowledgement panicked because of the destination callback; %s", desc)
			}
			if err != nil {
				vx.Violatef(t, rec, c40, "async-ack-blocked-by-callback", "WriteAcknowledgement failed because of the destination callback; %s", desc)
			}
			if !ackWritten(ctx) {
				vx.Violatef(t, rec, c40, "ack-not-written", "acknowledgement not written; %s", desc)
			}
			c1 := counter(ctx)
			if failed && c1 != c0 {
				vx.Violatef(t, rec, c40, "failed-callback-writes-persist", "failed async destination callback left its state change (counter %d->%d); %s", c0, c1, desc)
			}
			if !failed && c1 != c0+1 {
				rec.Add("ok_callback_state_missing", 1)
			}
		}
		if retry {
			rec.Class("exec<commit")
		}
		rec.Add("callbacks_run", 1)
		rec.NonTrivialIf(failed || retry)
	}
}

func TestC40AsyncAck(t *testing.T) {
	aw := newAsyncWorld(t)
	vx.Check(t, vx.Prop[c40aCase]{
		ID:        "C40",
		Rule:      "callbacks middleware WriteAcknowledgement (async ack; v1 transfer ICS4Wrapper and v2 routed module) called directly on a finite-gas context: dest_callback memo with user gas limit absent / around / above the chain max x remaining gas near / below / above commit / infinite x scripted contract (work gas placed around the limit, then ok / error / panic / burn gas / burn-and-swallow to error or nil); non-trivial = contract fails or exec < commit; distinct by full case",
		MinNTFrac: 0.4,
		Gen:       genC40a,
		Run:       runC40a(aw),
	})
}
