package pktc

import (
	"testing"

	"github.com/cosmos/ibc-go/v11/modules/apps/callbacks/verifx/vx"
)

// C05: a packet is received only if a commitment to exactly its data and timeout was proven at its sequence on
// the counterparty named by the destination channel / client, the v1 channel and connection are OPEN, the
// destination client is Active and the destination's own height and time are before the timeout; changing any
// of data, timeout, sequence, source identifiers or proof makes the receive fail without state change.
func TestC05(t *testing.T) {
	vx.Check(t, vx.Prop[mcase]{
		ID: "C05",
		Rule: "2 chains (optionally asymmetric ids) with v1-unordered, v1-ordered, v2 and v2-alias links, twin packets on the sibling link and (v2) on a rogue client; " +
			"honest prefix (5-7 sends, 1-2 receives, acks), then per trial a MsgRecvPacket valid at that moment gets 1-3 catalogue mutations (message fields, proof, proof height, environment) and is " +
			"submitted before the unmutated control; non-trivial = at least one model-forbidden mutated message whose control was accepted (or whose honest form was valid before an environment mutation); " +
			"distinct by (link kind, mutation labels per trial)",
		MinNTFrac: 0.6,
		Assumptions: []string{"honest counterparty chains (ibctesting) with Tendermint light clients; the model reads channel/connection/client state through keeper getters",
			"v1 channel/connection OPEN clauses are applied to v1 packets only (v2 packets over an aliased v1 channel id are only counted)"},
		Gen: genCase("C05"),
		Run: runCase(t),
	})
}

// TestC05Directed runs the same oracles on the identifier-confusion corner of the case space (see genDirected).
func TestC05Directed(t *testing.T) {
	vx.Check(t, vx.Prop[mcase]{
		ID:        "C05",
		Rule:      "as TestC05, narrowed to worlds where a sibling identifier on the proof chain equals the identifier the message names for the other chain, with single-mutation trials drawn from the wrong-key / wrong-counterparty catalogue entries; non-trivial and distinctness as TestC05",
		MinNTFrac: 0.6,
		Gen:       genDirected("C05"),
		Run:       runCase(t),
	})
}
