package rlpfm

// Shared plumbing for the rate-limit (C41) and packet-forward (C43) checks: ICS-20 v1 transfer
// channels on sim worlds, native-denom minting, MsgTransfer sends, and honest relays of
// receive / acknowledgement / timeout with proofs. Nothing here draws randomness.

import (
	"crypto/sha256"
	"encoding/hex"
	"fmt"
	"os"
	"strings"
	"time"

	sdkmath "cosmossdk.io/math"

	sdk "github.com/cosmos/cosmos-sdk/types"
	minttypes "github.com/cosmos/cosmos-sdk/x/mint/types"

	transfertypes "github.com/cosmos/ibc-go/v11/modules/apps/transfer/types"
	clienttypes "github.com/cosmos/ibc-go/v11/modules/core/02-client/types"
	channeltypes "github.com/cosmos/ibc-go/v11/modules/core/04-channel/types"
	channeltypesv2 "github.com/cosmos/ibc-go/v11/modules/core/04-channel/v2/types"
	ibctesting "github.com/cosmos/ibc-go/v11/testing"

	"github.com/cosmos/ibc-go/v11/modules/apps/callbacks/verifx/sim"
	"github.com/cosmos/ibc-go/v11/modules/apps/callbacks/verifx/vx"
)

const relayer = 0 // account index that signs every relay transaction

// addTransferLink opens an ICS-20 v1 channel (own clients and connection) between chains a and b
// and registers it as a sim.Link so that the sim relay builders work on it.
func addTransferLink(w *sim.World, a, b int) *sim.Link {
	l := &sim.Link{Idx: len(w.Links), Kind: sim.V1Unordered, Chain: [2]int{a, b}}
	sim.Guard("transfer link setup", func() {
		p := ibctesting.NewTransferPath(w.Chains[a], w.Chains[b])
		p.Setup()
		l.Path = p
	})
	w.Links = append(w.Links, l)
	return l
}

// mintTo creates `amt` of a native denom on chain i in account addr (direct keeper calls,
// committed by the following block).
func mintTo(w *sim.World, i int, addr sdk.AccAddress, denom string, amt int64) {
	coins := sdk.NewCoins(sdk.NewInt64Coin(denom, amt))
	ctx := w.Ctx(i)
	if err := w.App(i).BankKeeper.MintCoins(ctx, minttypes.ModuleName, coins); err != nil {
		vx.Harnessf("mint: %v", err)
	}
	if err := w.App(i).BankKeeper.SendCoinsFromModuleToAccount(ctx, minttypes.ModuleName, addr, coins); err != nil {
		vx.Harnessf("mint send: %v", err)
	}
}

// now is the time the next block of any chain will carry.
func now(w *sim.World) time.Time { return w.Coord.CurrentTime }

// side of link l that lives on chain c (-1 if none).
func sideOf(l *sim.Link, c int) int {
	if l.Chain[0] == c {
		return 0
	}
	if l.Chain[1] == c {
		return 1
	}
	return -1
}

// notePackets registers every send_packet event of a transaction executed on chain c as a
// sim.Pkt (looked up by source channel among the world's links) and returns them in order.
func notePackets(w *sim.World, c int, res sim.TxResult) []*sim.Pkt {
	if !res.OK {
		return nil
	}
	pkts, err := ibctesting.ParseIBCV1Packets(channeltypes.EventTypeSendPacket, res.Events)
	if err != nil {
		return nil
	}
	var out []*sim.Pkt
	for _, p := range pkts {
		var found *sim.Pkt
		for _, l := range w.Links {
			s := sideOf(l, c)
			if s < 0 || l.IsV2() || l.Port(s) != p.SourcePort || l.ID(s) != p.SourceChannel {
				continue
			}
			found = &sim.Pkt{Idx: len(w.Pkts), Link: l.Idx, Dir: s, P1: p, SrcHeight: res.Height}
			break
		}
		if found == nil {
			vx.Harnessf("send_packet event on chain %d for unknown channel %s/%s", c, p.SourcePort, p.SourceChannel)
		}
		w.Pkts = append(w.Pkts, found)
		out = append(out, found)
	}
	return out
}

// sendTransfer delivers a MsgTransfer on side dir of link l.
func sendTransfer(w *sim.World, l *sim.Link, dir, signer int, coin sdk.Coin, receiver string, timeoutNs uint64, memo string) (*sim.Pkt, sim.TxResult) {
	c := l.Chain[dir]
	msg := transfertypes.NewMsgTransfer(l.Port(dir), l.ID(dir), coin, w.Addr(c, signer).String(), receiver, clienttypes.ZeroHeight(), timeoutNs, memo)
	res := w.Deliver(c, signer, msg)
	pk := notePackets(w, c, res)
	if res.OK && len(pk) != 1 {
		vx.Harnessf("MsgTransfer succeeded with %d send_packet events", len(pk))
	}
	if len(pk) == 1 {
		return pk[0], res
	}
	return nil, res
}

// relayRecv updates the destination's client and delivers MsgRecvPacket for p. Every ack written
// by the transaction is attributed to its packet (see noteAcks); packets sent by the transaction
// (forwards) are registered and returned.
func relayRecv(w *sim.World, p *sim.Pkt) (sim.TxResult, []*sim.Pkt) {
	l := w.Links[p.Link]
	h := w.FreshHeight(l, 1-p.Dir, relayer)
	res := w.Deliver(w.DstChain(p), relayer, w.BuildRecv(p, h, relayer))
	noteAcks(w, w.DstChain(p), res)
	return res, notePackets(w, w.DstChain(p), res)
}

// noteAcks attributes every write_acknowledgement event of a transaction executed on chain c to
// the registered packet it acknowledges (destination channel + sequence on chain c): a forwarded
// packet's ack is written by a later acknowledgement / timeout transaction, not by its receive.
func noteAcks(w *sim.World, c int, res sim.TxResult) {
	if !res.OK {
		return
	}
	for _, ev := range res.Events {
		if ev.Type != channeltypes.EventTypeWriteAck {
			continue
		}
		var seq, ch, port, ackHex string
		for _, a := range ev.Attributes {
			switch a.Key {
			case channeltypes.AttributeKeySequence:
				seq = a.Value
			case channeltypes.AttributeKeyDstChannel:
				ch = a.Value
			case channeltypes.AttributeKeyDstPort:
				port = a.Value
			case channeltypes.AttributeKeyAckHex:
				ackHex = a.Value
			}
		}
		bz, err := hex.DecodeString(ackHex)
		if err != nil {
			continue
		}
		for _, p := range w.Pkts {
			if !p.V2 && w.DstChain(p) == c && p.P1.DestinationChannel == ch && p.P1.DestinationPort == port && fmt.Sprint(p.P1.Sequence) == seq {
				p.Ack1 = bz
			}
		}
	}
}

// relayAck updates the source's client and delivers MsgAcknowledgement for p with its noted ack.
func relayAck(w *sim.World, p *sim.Pkt) (sim.TxResult, []*sim.Pkt) {
	l := w.Links[p.Link]
	h := w.FreshHeight(l, p.Dir, relayer)
	res := w.Deliver(w.SrcChain(p), relayer, w.BuildAck(p, p.Ack1, channeltypesv2.Acknowledgement{}, h, relayer))
	noteAcks(w, w.SrcChain(p), res)
	return res, notePackets(w, w.SrcChain(p), res)
}

// relayTimeout moves the shared clock past p's timeout timestamp if necessary, updates the
// source's client and delivers MsgTimeout for p.
func relayTimeout(w *sim.World, p *sim.Pkt) (sim.TxResult, []*sim.Pkt) {
	l := w.Links[p.Link]
	to := time.Unix(0, int64(p.P1.TimeoutTimestamp))
	if d := to.Sub(now(w)); d >= 0 {
		w.AdvanceTime(d + time.Second)
	}
	h := w.FreshHeight(l, p.Dir, relayer)
	res := w.Deliver(w.SrcChain(p), relayer, w.BuildTimeout(p, 1, h, relayer))
	noteAcks(w, w.SrcChain(p), res)
	return res, notePackets(w, w.SrcChain(p), res)
}

// ackSuccess decodes a v1 ICS-20 acknowledgement; ok=false when it is not decodable.
func ackSuccess(bz []byte) (success bool, ok bool) {
	var ack channeltypes.Acknowledgement
	if err := transfertypes.ModuleCdc.UnmarshalJSON(bz, &ack); err != nil {
		return false, false
	}
	return ack.Success(), true
}

// ---- ICS-20 denomination model (written from the ICS-20 specification) --------------------

// hop is one (port, channel) element of a denomination trace.
type hop struct{ Port, Chan string }

// trace is a token's path: most recent hop first, then the base denomination.
type trace struct {
	Hops []hop
	Base string
}

func (t trace) path() string {
	var sb strings.Builder
	for _, h := range t.Hops {
		sb.WriteString(h.Port + "/" + h.Chan + "/")
	}
	sb.WriteString(t.Base)
	return sb.String()
}

// bank denomination of the token on the chain that holds it.
func (t trace) denom() string {
	if len(t.Hops) == 0 {
		return t.Base
	}
	return "ibc/" + strings.ToUpper(fmt.Sprintf("%x", sha256.Sum256([]byte(t.path()))))
}

// unwinds reports whether sending the token out through (port, channel) returns it to the chain
// it came from over that channel.
func (t trace) unwinds(port, ch string) bool {
	return len(t.Hops) > 0 && t.Hops[0] == hop{port, ch}
}

// after returns the token's trace on the receiving chain for a transfer sent through
// (sp, sc) and received on (dp, dc).
func (t trace) after(sp, sc, dp, dc string) trace {
	if t.unwinds(sp, sc) {
		return trace{Hops: append([]hop(nil), t.Hops[1:]...), Base: t.Base}
	}
	return trace{Hops: append([]hop{{dp, dc}}, t.Hops...), Base: t.Base}
}

func intOf(v int64) sdkmath.Int { return sdkmath.NewInt(v) }

// dbg prints diagnostics when VERIF_DEBUG is set (never used for decisions).
func dbg(format string, args ...any) {
	if os.Getenv("VERIF_DEBUG") != "" {
		fmt.Fprintf(os.Stderr, "DBG "+format+"\n", args...)
	}
}

func logOf(res sim.TxResult) string {
	if res.Res == nil {
		return ""
	}
	return res.Res.Log
}
