package denom

import (
	"testing"

	sdkmath "cosmossdk.io/math"

	sdk "github.com/cosmos/cosmos-sdk/types"

	"pgregory.net/rapid"

	ratelimittypes "github.com/cosmos/ibc-go/v11/modules/apps/rate-limiting/types"
	transfertypes "github.com/cosmos/ibc-go/v11/modules/apps/transfer/types"

	"github.com/cosmos/ibc-go/v11/modules/apps/callbacks/verifx/sim"
	"github.com/cosmos/ibc-go/v11/modules/apps/callbacks/verifx/vx"
)

// C42 (end-to-end demonstration): real transactions on a fresh two-chain world with a TIGHT quota
// registered (keeper.AddRateLimit, the governance path) on exactly the denomination ICS-20 moves
// and the channel it moves it on (both learnt from the bank on an unlimited first transfer).
//   send  quota q% of the supply of the native denom on the origin channel: a transfer of about
//         twice the threshold must be stopped; one of half the threshold must pass and be charged.
//   recv  quota q% of the voucher supply on the destination channel: same, judged by the
//         acknowledgement and the voucher supply.
// "Stopped" is required only of transfers far above the threshold and "charged" only of transfers
// far below it (the exact threshold arithmetic belongs to other properties).

type c42E2ECase struct {
	Base     string `json:"base"`
	Recv     bool   `json:"recv"` // quota on the receiving chain (voucher) instead of the sending chain (native)
	Over     bool   `json:"over"` // transfer far above (true) / far below (false) the threshold
	Pct      int64  `json:"pct"`
	Supply   string `json:"supply"`
	Skip     [2]int `json:"skip"`
	Excluded int    `json:"excluded"`
}

func genC42E2E(t *rapid.T) c42E2ECase {
	var c c42E2ECase
	c.Recv = rapid.Bool().Draw(t, "recv")
	switch {
	case rapid.IntRange(0, 3).Draw(t, "pinned") == 0:
		// pinned shapes: send side = the recorded finding (re-demonstrated), receive side = the
		// shapes in which the receive parser used to disagree with ICS-20 (must pass when fixed)
		c.Base = rapid.SampledFrom([]string{"ab/client-10/e", "gamm/pool-1", "lp/07-tendermint-0/share/x", "a/channel-7"}).Draw(t, "pinned-base")
	case c.Recv:
		c.Base, _ = genBase(t, "base", keepHopLike)
	default:
		c.Base, c.Excluded = genBase(t, "base", repairHopLikeSend)
	}
	c.Over = rapid.Bool().Draw(t, "over")
	c.Pct = rapid.SampledFrom([]int64{1, 5, 10, 25, 40}).Draw(t, "pct")
	c.Supply = rapid.SampledFrom([]string{"100000", "1000000000", "1000000000000000000000000"}).Draw(t, "supply")
	c.Skip = [2]int{rapid.IntRange(0, 3).Draw(t, "skip"), rapid.IntRange(0, 3).Draw(t, "skip")}
	return c
}

func runC42E2E(outer *testing.T) func(t rapid.TB, c c42E2ECase, rec *vx.Case) {
	return func(t rapid.TB, c c42E2ECase, rec *vx.Case) {
		const id = "C42"
		rec.Add("excluded_known", int64(c.Excluded))
		if sdk.ValidateDenom(c.Base) != nil {
			rec.Add("not_an_sdk_denom", 1)
			return
		}
		sig := func(generic string) string {
			switch {
			case !c.Recv && sendKnownClass(c.Base):
				return sigHopLike
			case c.Recv && hopLikeBase(c.Base):
				return sigRecvParser
			}
			return generic
		}
		w := sim.NewWorld(outer, 2, nil)
		l := addTransferLink(w, 0, 1, c.Skip[0], c.Skip[1])
		supply := mustInt(c.Supply)
		sender, holder := w.Addr(0, acctSender), w.Addr(1, acctHolder)
		mintTo(w, 0, sender, sdk.NewCoins(sdk.NewCoin(c.Base, supply)))

		// first, unlimited transfer of 1/10 of the supply: tells what ICS-20 moves where
		first := supply.QuoRaw(10)
		escA := transfertypes.GetEscrowAddress(l.Port(0), l.ID(0))
		e0 := balances(w, 0, escA)
		h0 := balances(w, 1, holder)
		p, _ := sendTransfer(w, l, 0, acctSender, sdk.NewCoin(c.Base, first), holder.String(), "")
		if p == nil {
			rec.Add("origin_rejected", 1)
			rec.Class("origin-rejected")
			return
		}
		rr := relay(w, p)
		escGain, escBy := gained(e0, balances(w, 0, escA))
		vGain, vBy := gained(h0, balances(w, 1, holder))
		if !rr.AckOK || len(escGain) != 1 || len(vGain) != 1 || !escBy[escGain[0]].Equal(first) || !vBy[vGain[0]].Equal(first) {
			rec.Add("first_transfer_failed", 1)
			rec.Class("first-transfer-failed")
			return
		}
		movedOnA, movedOnB := escGain[0], vGain[0] // what ICS-20 escrows on A / mints on B

		chain, denom, ch := 0, movedOnA, l.ID(0)
		if c.Recv {
			chain, denom, ch = 1, movedOnB, l.ID(1)
		}
		rl := w.App(chain).RateLimitKeeper
		if err := rl.AddRateLimit(w.Ctx(chain), &ratelimittypes.MsgAddRateLimit{
			Signer: rl.GetAuthority(), Denom: denom, ChannelOrClientId: ch,
			MaxPercentSend: sdkmath.NewInt(c.Pct), MaxPercentRecv: sdkmath.NewInt(c.Pct), DurationHours: 24,
		}); err != nil {
			vx.Harnessf("AddRateLimit(%s,%s): %v", denom, ch, err)
		}
		w.Block(chain, 1)
		lim, found := rl.GetRateLimit(w.Ctx(chain), denom, ch)
		if !found {
			vx.Harnessf("rate limit vanished")
		}
		threshold := lim.Flow.ChannelValue.MulRaw(c.Pct).QuoRaw(100)
		amt := threshold.MulRaw(2).AddRaw(1)
		if !c.Over {
			amt = threshold.QuoRaw(2)
			if !amt.IsPositive() {
				rec.Add("threshold_too_small", 1)
				return
			}
		}
		if amt.GT(supply.Sub(first)) {
			// the denom already had supply on the chain (e.g. the bond denom): the quota is a share of
			// a channel value this case did not mint; not the situation this test is about
			rec.Add("amount_above_funds", 1)
			rec.Class("preexisting-supply")
			return
		}

		e1 := w.Balance(0, escA, movedOnA).Amount
		v1 := w.Supply(1, movedOnB).Amount
		p2, res := sendTransfer(w, l, 0, acctSender, sdk.NewCoin(c.Base, amt), holder.String(), "")
		wentOut := p2 != nil && w.Balance(0, escA, movedOnA).Amount.Sub(e1).Equal(amt)
		arrived := false
		if p2 != nil {
			rr2 := relay(w, p2)
			arrived = rr2.AckOK && w.Supply(1, movedOnB).Amount.Sub(v1).Equal(amt)
		}
		through := wentOut
		dir := "send"
		if c.Recv {
			through, dir = arrived, "recv"
		}
		rec.Class("%s-%s", dir, map[bool]string{true: "over-quota", false: "under-quota"}[c.Over])
		after, _ := rl.GetRateLimit(w.Ctx(chain), denom, ch)
		flow := after.Flow.Outflow
		if c.Recv {
			flow = after.Flow.Inflow
		}
		rec.NonTrivial()
		switch {
		case c.Over && through:
			vx.Violatef(t, rec, id, sig("quota-bypassed-"+dir), "base %q: a %d%% quota on (%s, %s) [threshold %s of channel value %s] did not stop a transfer of %s of it (%s flow recorded: %s)",
				c.Base, c.Pct, denom, ch, threshold, lim.Flow.ChannelValue, amt, dir, flow)
			return
		case c.Over:
			rec.Add("over_quota_stopped", 1)
		case through && !flow.Equal(amt):
			vx.Violatef(t, rec, id, sig("flow-not-charged-"+dir), "base %q: a transfer of %s of (%s, %s) went through under a %d%% quota but the quota recorded a flow of %s",
				c.Base, amt, denom, ch, c.Pct, flow)
			return
		case through:
			rec.Add("under_quota_charged", 1)
		default:
			rec.Add("under_quota_refused", 1) // converse: measured only
			_ = res
		}
	}
}

func TestC42E2E(t *testing.T) {
	vx.Check(t, vx.Prop[c42E2ECase]{
		ID: "C42",
		Rule: "fresh 2-chain world; base denom from the C33 generator (3 in 4; only the recorded send-side class repaired out, and only when the quota is on the sending chain) or from a pinned hop-like list (1 in 4); unlimited first transfer identifies the (denom, channel) ICS-20 moves on each side; " +
			"AddRateLimit of 1..40% there; then a transfer of 2x+1 / 0.5x the threshold through real txs and relays; non-trivial = the limited transfer was attempted; distinct by full case",
		MinNTFrac: 0.5,
		Gen:       genC42E2E,
		Run:       runC42E2E(t),
	})
}
