package pure

import (
	"fmt"
	"testing"

	"pgregory.net/rapid"

	connectiontypes "github.com/cosmos/ibc-go/v11/modules/core/03-connection/types"
	channeltypes "github.com/cosmos/ibc-go/v11/modules/core/04-channel/types"
	commitmenttypes "github.com/cosmos/ibc-go/v11/modules/core/23-commitment/types"

	"github.com/cosmos/ibc-go/v11/modules/apps/callbacks/verifx/vx"
)

// C15 (genesis clause): identifiers are never reused over the chain's whole history, which
// includes a restart from a genesis file. Genesis validation is the guard: a genesis that
// Validate() accepts must never let the id counter restart at (or below) a sequence that an
// existing channel / connection identifier already uses.

type c15gCase struct {
	Kind string   // channel | connection
	Seqs []uint64 // sequences of the identifiers present in the genesis
	Next uint64   // the next-sequence counter of the genesis
}

func genC15g(t *rapid.T) c15gCase {
	c := c15gCase{Kind: rapid.SampledFrom([]string{"channel", "connection"}).Draw(t, "kind")}
	n := rapid.IntRange(1, 4).Draw(t, "n")
	var max uint64
	for i := 0; i < n; i++ {
		var s uint64
		switch rapid.IntRange(0, 3).Draw(t, "seqkind") {
		case 0:
			s = 0
		case 1:
			s = rapid.Uint64Range(0, 12).Draw(t, "small")
		default:
			s = vx.U64().Draw(t, "seq")
		}
		c.Seqs = append(c.Seqs, s)
		if s > max {
			max = s
		}
	}
	switch rapid.IntRange(0, 4).Draw(t, "nextkind") {
	case 0:
		c.Next = max
	case 1:
		c.Next = max + 1 // may wrap to 0 at MaxUint64: then every id is >= next
	case 2:
		if max > 0 {
			c.Next = max - 1
		}
	case 3:
		c.Next = 0
	default:
		c.Next = vx.U64().Draw(t, "next")
	}
	return c
}

func runC15g(t rapid.TB, c c15gCase, rec *vx.Case) {
	var max uint64
	for _, s := range c.Seqs {
		if s > max {
			max = s
		}
	}
	var err error
	switch c.Kind {
	case "channel":
		var chans []channeltypes.IdentifiedChannel
		for _, s := range c.Seqs {
			ch := channeltypes.NewChannel(channeltypes.OPEN, channeltypes.UNORDERED, channeltypes.NewCounterparty("mock", "channel-1"), []string{"connection-0"}, "v")
			chans = append(chans, channeltypes.NewIdentifiedChannel("mock", channeltypes.FormatChannelIdentifier(s), ch))
		}
		gs := channeltypes.DefaultGenesisState()
		gs.Channels, gs.NextChannelSequence = chans, c.Next
		err = gs.Validate()
	case "connection":
		var conns []connectiontypes.IdentifiedConnection
		for _, s := range c.Seqs {
			cp := connectiontypes.NewCounterparty("07-tendermint-1", "connection-1", commitmenttypes.NewMerklePrefix([]byte("ibc")))
			ce := connectiontypes.NewConnectionEnd(connectiontypes.OPEN, "07-tendermint-0", cp, connectiontypes.GetCompatibleVersions(), 0)
			conns = append(conns, connectiontypes.NewIdentifiedConnection(connectiontypes.FormatConnectionIdentifier(s), ce))
		}
		gs := connectiontypes.DefaultGenesisState()
		gs.Connections, gs.NextConnectionSequence = conns, c.Next
		err = gs.Validate()
	}
	accepted := err == nil
	safe := c.Next > max // the counter can only hand out unused sequences
	rec.Class("%s/accepted=%v/safe=%v", c.Kind, accepted, safe)
	if max == 0 {
		rec.Class("max-sequence-zero")
	}
	if accepted && !safe {
		sig := "genesis-next-sequence-not-above-max-used"
		if max == 0 {
			sig = "genesis-next-sequence-zero-with-id-zero-present"
		}
		vx.Violatef(t, rec, "C15", sig, "%s genesis with identifiers at sequences %v and next sequence %d passes Validate(): the next generated identifier %s-%d is already in use",
			c.Kind, c.Seqs, c.Next, c.Kind, c.Next)
	}
	if !accepted && safe {
		rec.Add("safe_but_rejected", 1)
	}
	rec.NonTrivialIf(c.Next+1 >= max && c.Next <= max+1 || c.Next == 0)
	rec.Key("%s|%v|%d", c.Kind, c.Seqs, c.Next)
	_ = fmt.Sprint
}

func TestC15Genesis(t *testing.T) {
	vx.Check(t, vx.Prop[c15gCase]{
		ID:        "C15",
		Rule:      "channel / connection genesis states with 1-4 identifiers at generated sequences (0, small, full uint64) and a next-sequence counter at max-1, max, max+1, 0 or random; oracle: Validate() accepts => next > max used sequence; non-trivial = next within +-1 of the max used sequence or next = 0",
		MinNTFrac: 0.3,
		Gen:       genC15g,
		Run:       runC15g,
	})
}
