package st

import (
	"bytes"
	"fmt"
	"sort"
	"strings"
	"testing"

	"pgregory.net/rapid"

	sdk "github.com/cosmos/cosmos-sdk/types"

	clienttypes "github.com/cosmos/ibc-go/v11/modules/core/02-client/types"
	clientv2types "github.com/cosmos/ibc-go/v11/modules/core/02-client/v2/types"
	hostv2 "github.com/cosmos/ibc-go/v11/modules/core/24-host/v2"
	"github.com/cosmos/ibc-go/v11/modules/core/exported"
	ibctm "github.com/cosmos/ibc-go/v11/modules/light-clients/07-tendermint"

	"github.com/cosmos/ibc-go/v11/modules/apps/callbacks/verifx/sim"
	"github.com/cosmos/ibc-go/v11/modules/apps/callbacks/verifx/vx"
)

// C16 (stateful part): client operations write only inside the namespace of the client they
// target; recovery may read the substitute's namespace but never writes it.
//
// Every client operation is bracketed by two dumps of the raw "ibc" store of the hosting
// chain. Every key that was added, changed or removed must lie under "clients/<target>/",
// or be one of the writes the operation is documented to make outside that prefix:
//   create-client        : the global counter "nextClientSequence"
//   register-counterparty: the v2 send-sequence initialisation of the SAME client id
//                          ("nextSequenceSend//<target>", see msg server: "initialize next
//                          sequence send to enable packet flow")
// Nothing keyed by any other client may change. For recovery the substitute's whole prefix
// must be byte-identical before and after.

type c16nsOp struct {
	K    string // create | solo | update | misbehave | recover | register | config | delcreator | block
	T    int    // target client index (mod number of clients)
	S    int    // substitute index for recover
	Jump bool   // create: first move the client counter to 10x so that ids become prefixes of each other
	Sig  int    // signer account
}

type c16nsHist struct {
	Ops []c16nsOp
}

func genC16ns(t *rapid.T) c16nsHist {
	var h c16nsHist
	// at least three clients up front
	for i := 0; i < 3; i++ {
		h.Ops = append(h.Ops, c16nsOp{K: "create", Jump: rapid.IntRange(0, 1).Draw(t, "jump0") == 0})
	}
	kinds := []string{"create", "solo", "update", "update", "misbehave", "recover", "recover", "register", "config", "delcreator", "block"}
	n := rapid.IntRange(6, 16).Draw(t, "nops")
	for i := 0; i < n; i++ {
		h.Ops = append(h.Ops, c16nsOp{
			K:    rapid.SampledFrom(kinds).Draw(t, "k"),
			T:    rapid.IntRange(0, 7).Draw(t, "t"),
			S:    rapid.IntRange(0, 7).Draw(t, "s"),
			Jump: rapid.IntRange(0, 2).Draw(t, "jump") == 0,
			Sig:  rapid.IntRange(0, 1).Draw(t, "sig") * rapid.IntRange(0, 2).Draw(t, "sig2"),
		})
	}
	return h
}

type c16nsWorld struct {
	w       *sim.World
	t       rapid.TB
	rec     *vx.Case
	clients []string // ids on chain 0, in creation order
	tm      map[string]bool
	okKinds map[string]bool
	step    int
}

func (x *c16nsWorld) dump() map[string]string {
	return x.w.Snapshot(0, exported.StoreKey)[exported.StoreKey]
}

func c16nsChanged(a, b map[string]string) []string {
	var out []string
	for k, v := range a {
		if bv, ok := b[k]; !ok || bv != v {
			out = append(out, k)
		}
	}
	for k := range b {
		if _, ok := a[k]; !ok {
			out = append(out, k)
		}
	}
	sort.Strings(out)
	return out
}

// judge applies the namespace oracle to one operation.
func (x *c16nsWorld) judge(op, target string, before, after map[string]string, extra ...string) []string {
	const id = "C16"
	changed := c16nsChanged(before, after)
	pfx := "clients/" + target + "/"
	for _, k := range changed {
		if target != "" && strings.HasPrefix(k, pfx) {
			continue
		}
		allowed := false
		for _, e := range extra {
			if k == e {
				allowed = true
			}
		}
		if allowed {
			x.rec.Add("documented_outside_writes", 1)
			continue
		}
		owner := "no client"
		if strings.HasPrefix(k, "clients/") {
			rest := k[len("clients/"):]
			if i := strings.IndexByte(rest, '/'); i >= 0 {
				owner = "client " + rest[:i]
			}
		}
		sig := op + "-writes-outside-namespace"
		if strings.HasPrefix(owner, "client ") {
			sig = op + "-writes-other-client"
		}
		vx.Violatef(x.t, x.rec, id, sig, "step %d: %s on %q changed key %q (belongs to %s); all changed keys: %q", x.step, op, target, k, owner, changed)
	}
	return changed
}

func (x *c16nsWorld) pick(i int) string {
	if len(x.clients) == 0 {
		return ""
	}
	return x.clients[i%len(x.clients)]
}

func (x *c16nsWorld) status(cid string) exported.Status {
	return x.w.App(0).IBCKeeper.ClientKeeper.GetClientStatus(x.w.Ctx(0), cid)
}

func (x *c16nsWorld) create(op c16nsOp, solo bool) {
	w := x.w
	ck := w.App(0).IBCKeeper.ClientKeeper
	if op.Jump {
		cur := ck.GetNextClientSequence(w.Ctx(0))
		// last id was cur-1: continue at 10x that number (1 -> 10 -> 100 ...) so that earlier ids
		// are proper prefixes of later ones
		nxt := uint64(1)
		if cur >= 2 {
			nxt = (cur - 1) * 10
		}
		if nxt > cur && nxt < 1<<40 {
			ck.SetNextClientSequence(w.Ctx(0), nxt) // harness action (like an imported genesis), outside the judged window
			w.Block(0, 1)
		}
	}
	h := &c15World{w: w}
	var msg sdk.Msg
	if solo {
		msg = h.msgCreateSolo(0, 0)
	} else {
		msg = h.msgCreateTM(0, 0)
	}
	before := x.dump()
	res := w.Deliver(0, 0, msg)
	after := x.dump()
	var cid string
	if res.OK {
		for _, g := range c15IDsFromEvents(res.Events) {
			if g.kind == "client" {
				cid = g.id
			}
		}
		if cid == "" {
			vx.Harnessf("create succeeded without a client id event")
		}
	}
	ch := x.judge("create", cid, before, after, clienttypes.KeyNextClientSequence)
	if res.OK {
		if len(ch) < 2 {
			vx.Harnessf("create of %q changed only %q", cid, ch)
		}
		x.clients = append(x.clients, cid)
		x.tm[cid] = !solo
		x.okKinds["create"] = true
	}
}

func (x *c16nsWorld) update(target string, signer int) bool {
	w := x.w
	if target == "" || !x.tm[target] {
		return false
	}
	w.Block(1, 1)
	before := x.dump()
	res := w.UpdateClientNoCommit(0, target, 1, signer)
	after := x.dump()
	ch := x.judge("update", target, before, after)
	if res.OK && len(ch) > 0 {
		x.okKinds["update"] = true
	}
	return res.OK
}

func (x *c16nsWorld) misbehave(target string) bool {
	w := x.w
	if target == "" || !x.tm[target] {
		return false
	}
	cp := w.Chains[1]
	trusted, ok := w.Chains[0].GetClientLatestHeight(target).(clienttypes.Height)
	if !ok {
		return false
	}
	tv, ok := cp.TrustedValidators[trusted.RevisionHeight]
	if !ok {
		x.rec.Add("misbehaviour_no_trusted_vals", 1)
		return false
	}
	var mb *ibctm.Misbehaviour
	sim.Guard("forge misbehaviour", func() {
		mb = &ibctm.Misbehaviour{
			ClientId: target,
			Header1:  cp.CreateTMClientHeader(cp.ChainID, cp.ProposedHeader.Height+3, trusted, cp.ProposedHeader.Time, cp.Vals, cp.NextVals, tv, cp.Signers),
			Header2:  cp.CreateTMClientHeader(cp.ChainID, cp.ProposedHeader.Height, trusted, cp.ProposedHeader.Time, cp.Vals, cp.NextVals, tv, cp.Signers),
		}
	})
	msg, err := clienttypes.NewMsgUpdateClient(target, mb, w.Addr(0, 0).String())
	if err != nil {
		vx.Harnessf("NewMsgUpdateClient(misbehaviour): %v", err)
	}
	before := x.dump()
	res := w.Deliver(0, 0, msg)
	after := x.dump()
	ch := x.judge("misbehaviour", target, before, after)
	if res.OK && len(ch) > 0 {
		x.okKinds["misbehaviour"] = true
		if x.status(target) != exported.Frozen {
			x.rec.Add("misbehaviour_accepted_but_not_frozen", 1)
		}
	}
	return res.OK
}

func (x *c16nsWorld) recover(subject, substitute string) {
	const id = "C16"
	w := x.w
	if subject == "" || substitute == "" || subject == substitute {
		return
	}
	ctx := w.Ctx(0)
	before := x.dump()
	cctx, write := ctx.CacheContext()
	var err error
	if p, msg := vx.Recover(func() { err = w.App(0).IBCKeeper.ClientKeeper.RecoverClient(cctx, subject, substitute) }); p {
		x.rec.Add("recover_panicked", 1)
		_ = msg
		return
	}
	if err != nil {
		x.rec.Add("recover_rejected", 1)
		return
	}
	write()
	after := x.dump()
	ch := x.judge("recover", subject, before, after)
	spfx := "clients/" + substitute + "/"
	for _, k := range c16nsChanged(before, after) {
		if strings.HasPrefix(k, spfx) {
			vx.Violatef(x.t, x.rec, id, "recover-writes-substitute", "step %d: recovery of %q with substitute %q changed the substitute's key %q", x.step, subject, substitute, k)
		}
	}
	nsub := 0
	for k, v := range before {
		if strings.HasPrefix(k, spfx) {
			nsub++
			if after[k] != v {
				vx.Violatef(x.t, x.rec, id, "recover-writes-substitute", "substitute key %q differs after recovery", k)
			}
		}
	}
	if nsub == 0 {
		vx.Harnessf("substitute %q has no keys", substitute)
	}
	if len(ch) > 0 {
		x.okKinds["recover"] = true
		x.rec.Add("recover_ok", 1)
	}
	w.Block(0, 1)
}

func runC16ns(outer *testing.T) func(rapid.TB, c16nsHist, *vx.Case) {
	return func(t rapid.TB, h c16nsHist, rec *vx.Case) {
		const id = "C16"
		w := sim.NewWorld(outer, 2, nil)
		x := &c16nsWorld{w: w, t: t, rec: rec, tm: map[string]bool{}, okKinds: map[string]bool{}}
		for i, op := range h.Ops {
			x.step = i
			switch op.K {
			case "create":
				x.create(op, false)
			case "solo":
				x.create(op, true)
			case "update":
				x.update(x.pick(op.T), op.Sig)
			case "misbehave":
				x.misbehave(x.pick(op.T))
			case "recover":
				// macro: make the preconditions likely, every sub-step is itself judged
				subj, subst := x.pick(op.T), x.pick(op.S)
				if subj == subst {
					subst = x.pick(op.S + 1)
				}
				if subj == "" || subst == "" || !x.tm[subj] || !x.tm[subst] {
					break
				}
				if x.status(subst) != exported.Active {
					subj, subst = subst, subj
				}
				if x.status(subj) == exported.Active {
					x.misbehave(subj)
				}
				if x.status(subst) == exported.Active {
					x.update(subst, 0)
				}
				x.recover(subj, subst)
			case "register":
				target := x.pick(op.T)
				if target == "" {
					break
				}
				msg := clientv2types.NewMsgRegisterCounterparty(target, [][]byte{[]byte("ibc"), []byte("")}, "07-tendermint-0", w.Addr(0, op.Sig).String())
				before := x.dump()
				res := w.Deliver(0, op.Sig, msg)
				after := x.dump()
				ch := x.judge("register-counterparty", target, before, after, string(hostv2.NextSequenceSendKey(target)))
				if res.OK && len(ch) > 0 {
					x.okKinds["register"] = true
				}
			case "config":
				target := x.pick(op.T)
				if target == "" {
					break
				}
				cfg := clientv2types.NewConfig(w.Addr(0, 0).String(), w.Addr(0, 1).String(), w.Addr(0, 2).String())
				if op.Jump {
					cfg = clientv2types.NewConfig(w.Addr(0, 0).String())
				}
				msg := clientv2types.NewMsgUpdateClientConfig(target, w.Addr(0, op.Sig).String(), cfg)
				before := x.dump()
				res := w.Deliver(0, op.Sig, msg)
				after := x.dump()
				ch := x.judge("update-config", target, before, after)
				if res.OK && len(ch) > 0 {
					x.okKinds["config"] = true
				}
			case "delcreator":
				target := x.pick(op.T)
				if target == "" {
					break
				}
				msg := clienttypes.NewMsgDeleteClientCreator(target, w.Addr(0, op.Sig).String())
				before := x.dump()
				res := w.Deliver(0, op.Sig, msg)
				after := x.dump()
				ch := x.judge("delete-creator", target, before, after)
				if res.OK && len(ch) > 0 {
					x.okKinds["delcreator"] = true
				}
			case "block":
				before := x.dump()
				w.Block(0, 1)
				if ch := c16nsChanged(before, x.dump()); len(ch) > 0 {
					vx.Harnessf("an empty block changed the ibc store: %q", ch)
				}
			default:
				vx.Harnessf("unknown op %q", op.K)
			}
		}

		// prefix isolation through the keeper's own ClientStore: iterating one client's store returns
		// exactly the raw entries under "clients/<id>/" (and so nothing of "clients/<id>0/...")
		final := x.dump()
		prefixRelated := false
		for _, a := range x.clients {
			for _, b := range x.clients {
				if a != b && strings.HasPrefix(b, a) {
					prefixRelated = true
				}
			}
			store := w.App(0).IBCKeeper.ClientKeeper.ClientStore(w.Ctx(0), a)
			got := map[string]string{}
			it := store.Iterator(nil, nil)
			for ; it.Valid(); it.Next() {
				got[string(it.Key())] = string(it.Value())
			}
			it.Close()
			want := map[string]string{}
			for k, v := range final {
				if strings.HasPrefix(k, "clients/"+a+"/") {
					want[k[len("clients/"+a+"/"):]] = v
				}
			}
			if d := c16nsChanged(got, want); len(d) > 0 {
				vx.Violatef(t, rec, id, "clientstore-iteration-mismatch", "iterating ClientStore(%q) returns %d entries, raw store has %d under its prefix; differing keys %q", a, len(got), len(want), d)
			}
			if len(got) == 0 {
				vx.Violatef(t, rec, id, "clientstore-iteration-mismatch", "ClientStore(%q) is empty although the client exists", a)
			}
			cs := want["clientState"]
			if !bytes.Equal([]byte(got["clientState"]), []byte(cs)) || cs == "" {
				vx.Violatef(t, rec, id, "clientstore-iteration-mismatch", "client %q has no clientState under its prefix", a)
			}
		}
		if prefixRelated {
			rec.Class("client-ids-in-prefix-relation")
		}
		kinds := make([]string, 0, len(x.okKinds))
		for k := range x.okKinds {
			kinds = append(kinds, k)
		}
		sort.Strings(kinds)
		for _, k := range kinds {
			rec.Class("ok:%s", k)
		}
		rec.Add("clients", int64(len(x.clients)))
		rec.Key("%s", fmt.Sprintf("%+v", h))
		rec.NonTrivialIf(len(x.clients) >= 3 && len(kinds) >= 3 && (x.okKinds["recover"] || x.okKinds["misbehaviour"]))
	}
}

func TestC16Namespace(t *testing.T) {
	vx.Check(t, vx.Prop[c16nsHist]{
		ID:        "C16",
		Rule:      "stateful: chain 0 hosts >=3 light clients of chain 1 (tendermint, optionally solomachine; the client counter is moved to 10x before some creations so ids like -1/-10/-110 are prefixes of each other); 6-16 further ops: create, update (honest header), misbehaviour (forged conflicting headers signed by the real validators), recover (direct ClientKeeper.RecoverClient on a cached context, after freezing the subject and updating the substitute), register counterparty, update client config, delete creator, empty block; every op is bracketed by raw dumps of the ibc store. non-trivial = >=3 clients, >=3 distinct op kinds succeeded with a non-empty write set, including a successful misbehaviour or recovery; distinct by full history",
		MinNTFrac: 0.5,
		Assumptions: []string{
			"register-counterparty is allowed to write nextSequenceSend//<target> (v2 send-sequence initialisation keyed by the same client id) besides clients/<target>/",
			"create-client is allowed to write the global counter nextClientSequence",
		},
		Gen: genC16ns,
		Run: runC16ns(t),
	})
}
