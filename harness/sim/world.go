// Package sim builds small multi-chain IBC worlds on top of ibctesting, with an
// adversarial relayer, scripted mock applications that log every callback, and
// state snapshots. It never draws randomness: every decision comes from the
// plain-data history handed to it by a property.
package sim

import (
	"bytes"
	"fmt"
	"sort"
	"testing"
	"time"

	storetypes "github.com/cosmos/cosmos-sdk/store/v2/types"
	sdk "github.com/cosmos/cosmos-sdk/types"
	banktypes "github.com/cosmos/cosmos-sdk/x/bank/types"

	abci "github.com/cometbft/cometbft/abci/types"

	gmptypes "github.com/cosmos/ibc-go/v11/modules/apps/27-gmp/types"
	icacontrollertypes "github.com/cosmos/ibc-go/v11/modules/apps/27-interchain-accounts/controller/types"
	icahosttypes "github.com/cosmos/ibc-go/v11/modules/apps/27-interchain-accounts/host/types"
	pfmtypes "github.com/cosmos/ibc-go/v11/modules/apps/packet-forward-middleware/types"
	ratelimittypes "github.com/cosmos/ibc-go/v11/modules/apps/rate-limiting/types"
	transfertypes "github.com/cosmos/ibc-go/v11/modules/apps/transfer/types"
	clienttypes "github.com/cosmos/ibc-go/v11/modules/core/02-client/types"
	commitmenttypes "github.com/cosmos/ibc-go/v11/modules/core/23-commitment/types"
	"github.com/cosmos/ibc-go/v11/modules/core/exported"
	ibcexported "github.com/cosmos/ibc-go/v11/modules/core/exported"
	ibctm "github.com/cosmos/ibc-go/v11/modules/light-clients/07-tendermint"
	ibctesting "github.com/cosmos/ibc-go/v11/testing"
	"github.com/cosmos/ibc-go/v11/testing/simapp"

	"github.com/cosmos/ibc-go/v11/modules/apps/callbacks/verifx/vx"
)

// tbShim is handed to ibctesting as chain.TB: helper-library assertion failures become
// harness errors (discarded cases), never property violations.
type tbShim struct{ testing.TB }

func (s tbShim) Errorf(format string, args ...any) {
	vx.Harnessf("ibctesting assertion: "+format, args...)
}
func (s tbShim) Error(args ...any)                 { vx.Harnessf("ibctesting assertion: %s", fmt.Sprint(args...)) }
func (s tbShim) Fatalf(format string, args ...any) { vx.Harnessf("ibctesting fatal: "+format, args...) }
func (s tbShim) Fatal(args ...any)                 { vx.Harnessf("ibctesting fatal: %s", fmt.Sprint(args...)) }
func (s tbShim) FailNow()                          { vx.Harnessf("ibctesting FailNow") }
func (s tbShim) Fail()                             { vx.Harnessf("ibctesting Fail") }

// World is a set of chains sharing one clock.
type World struct {
	T      *testing.T
	Coord  *ibctesting.Coordinator
	Chains []*ibctesting.TestChain
	Links  []*Link
	Pkts   []*Pkt
	Log    []Event // application callback log (all chains)
	Msgs   []SentMsg
	StepNo int
	inTx   bool
	txMark int
}

// NewWorld creates n chains (n in 1..4). outer must be the enclosing *testing.T.
func NewWorld(outer *testing.T, n int, creator ibctesting.AppCreator) (w *World) {
	w = &World{T: outer}
	if creator == nil {
		creator = ibctesting.DefaultTestingAppInit
	}
	Guard("world setup", func() {
		w.Coord = ibctesting.NewCustomAppCoordinator(outer, n, creator)
		for i := 1; i <= n; i++ {
			c := w.Coord.GetChain(ibctesting.GetChainID(i))
			c.TB = tbShim{outer}
			w.Chains = append(w.Chains, c)
		}
		for i := range w.Chains {
			w.installApps(i)
		}
	})
	return w
}

// Guard runs f, converting any non-harness panic of setup helpers into a harness error.
func Guard(what string, f func()) {
	defer func() {
		if r := recover(); r != nil {
			if _, ok := r.(vx.HarnessError); ok {
				panic(r)
			}
			if fmt.Sprint(r) != "" && isRapidPanic(r) {
				panic(r)
			}
			vx.Harnessf("%s panicked: %v", what, r)
		}
	}()
	f()
}

// rapid signals skip/fail through panics of its own unexported types; let those pass.
func isRapidPanic(r any) bool {
	t := fmt.Sprintf("%T", r)
	return t == "rapid.invalidData" || t == "rapid.stopTest"
}

func (w *World) App(i int) *simapp.SimApp { return w.Chains[i].GetSimApp() }

// Ctx returns the context of chain i for reads / direct keeper writes (pending for the
// next block).
func (w *World) Ctx(i int) sdk.Context { return w.Chains[i].GetContext() }

func (w *World) Height(i int) int64 { return w.Chains[i].App.LastBlockHeight() }

// Block commits n empty blocks on chain i (5 s of shared clock each).
func (w *World) Block(i int, n int) {
	for k := 0; k < n; k++ {
		w.Coord.CommitBlock(w.Chains[i])
	}
}

// AdvanceTime moves the shared clock forward.
func (w *World) AdvanceTime(d time.Duration) { w.Coord.IncrementTimeBy(d) }

// Acct returns sender account k of chain i.
func (w *World) Acct(i, k int) ibctesting.SenderAccount {
	accs := w.Chains[i].SenderAccounts
	return accs[k%len(accs)]
}

func (w *World) Addr(i, k int) sdk.AccAddress { return w.Acct(i, k).SenderAccount.GetAddress() }

// TxResult is the outcome of one delivered transaction (one block).
type TxResult struct {
	Res    *abci.ExecTxResult
	Err    error
	OK     bool
	Height int64 // block height that carried the tx
	Events []abci.Event
}

// SentMsg remembers every message delivered so that histories can replay old ones.
type SentMsg struct {
	Chain  int
	Signer int
	Msgs   []sdk.Msg
	OK     bool
}

// Deliver signs msgs with account k of chain i and delivers them as the only transaction
// of the next block. A failing transaction is a normal outcome (Err != nil).
func (w *World) Deliver(i, k int, msgs ...sdk.Msg) TxResult {
	c := w.Chains[i]
	acc := w.Acct(i, k)
	// re-sync the local sequence with the chain (failed ante handlers do not bump it)
	if onchain := w.App(i).AccountKeeper.GetAccount(w.Ctx(i), acc.SenderAccount.GetAddress()); onchain != nil {
		_ = acc.SenderAccount.SetSequence(onchain.GetSequence())
	}
	w.inTx, w.txMark = true, len(w.Log)
	h := c.ProposedHeader.Height
	var res *abci.ExecTxResult
	var err error
	Guard("SendMsgs", func() { res, err = c.SendMsgsWithSender(acc, msgs...) })
	w.inTx = false
	ok := err == nil && res != nil && res.Code == 0
	if !ok {
		for j := w.txMark; j < len(w.Log); j++ {
			w.Log[j].Reverted = true
		}
	}
	w.Msgs = append(w.Msgs, SentMsg{Chain: i, Signer: k, Msgs: msgs, OK: ok})
	out := TxResult{Res: res, Err: err, OK: ok, Height: h}
	if res != nil {
		out.Events = res.Events
	}
	return out
}

// ---- snapshots ----------------------------------------------------------------------

// Snap is a snapshot of the protocol-relevant state of one chain.
type Snap map[string]map[string]string // store -> key -> value

// DefaultStores are the stores compared by "state unchanged" oracles.
var DefaultStores = []string{ibcexported.StoreKey, transfertypes.StoreKey, ratelimittypes.StoreKey, pfmtypes.StoreKey, icacontrollertypes.StoreKey, icahosttypes.StoreKey, gmptypes.StoreKey}

// Snapshot captures the given stores (default DefaultStores) plus non-bond-denom bank
// balances and supplies.
func (w *World) Snapshot(i int, stores ...string) Snap {
	if len(stores) == 0 {
		stores = DefaultStores
	}
	ctx := w.Ctx(i)
	app := w.App(i)
	s := Snap{}
	for _, name := range stores {
		key := app.GetKey(name)
		if key == nil {
			vx.Harnessf("no store key %q", name)
		}
		s[name] = dumpStore(ctx.KVStore(key))
	}
	bank := map[string]string{}
	app.BankKeeper.IterateAllBalances(ctx, func(addr sdk.AccAddress, coin sdk.Coin) bool {
		if coin.Denom != sdk.DefaultBondDenom {
			bank["bal/"+addr.String()+"/"+coin.Denom] = coin.Amount.String()
		}
		return false
	})
	app.BankKeeper.IterateTotalSupply(ctx, func(coin sdk.Coin) bool {
		if coin.Denom != sdk.DefaultBondDenom {
			bank["supply/"+coin.Denom] = coin.Amount.String()
		}
		return false
	})
	s["bank"] = bank
	return s
}

func dumpStore(st storetypes.KVStore) map[string]string {
	m := map[string]string{}
	it := st.Iterator(nil, nil)
	defer it.Close()
	for ; it.Valid(); it.Next() {
		m[string(it.Key())] = string(it.Value())
	}
	return m
}

// Diff lists the keys that differ between two snapshots as "store:key" strings, sorted.
func Diff(a, b Snap) []string {
	var out []string
	stores := map[string]bool{}
	for k := range a {
		stores[k] = true
	}
	for k := range b {
		stores[k] = true
	}
	for st := range stores {
		am, bm := a[st], b[st]
		for k, v := range am {
			if bv, ok := bm[k]; !ok || bv != v {
				out = append(out, st+":"+printable(k))
			}
		}
		for k := range bm {
			if _, ok := am[k]; !ok {
				out = append(out, st+":"+printable(k))
			}
		}
	}
	sort.Strings(out)
	kept := out[:0]
	for _, d := range out {
		if !TimeDrivenKeys[d] {
			kept = append(kept, d)
		}
	}
	return kept
}

// TimeDrivenKeys are "store:key" entries rewritten by begin-blockers purely as a function of
// block time, whatever transaction the block carries; they are outside every "state
// unchanged" comparison (DESIGN §2.3). The rate-limiting BeginBlocker rewrites its hour
// epoch record in the first block after each full hour of chain time.
var TimeDrivenKeys = map[string]bool{"ratelimit:hour-epoch": true}

func printable(k string) string {
	b := []byte(k)
	ok := true
	for _, c := range b {
		if c < 0x20 || c > 0x7e {
			ok = false
			break
		}
	}
	if ok {
		return k
	}
	return fmt.Sprintf("%q", k)
}

// ---- light-client helpers -----------------------------------------------------------

// ConsensusHeights returns the revision heights for which client clientID on chain i
// stores a consensus state, ascending.
func (w *World) ConsensusHeights(i int, clientID string) []uint64 {
	store := w.App(i).IBCKeeper.ClientKeeper.ClientStore(w.Ctx(i), clientID)
	var hs []uint64
	ibctm.IterateConsensusStateAscending(store, func(h exported.Height) bool {
		hs = append(hs, h.GetRevisionHeight())
		return false
	})
	return hs
}

// UpdateClient submits an honest MsgUpdateClient on chain i for its client of chain j
// (after committing a block on j so that its latest state is provable).
func (w *World) UpdateClient(i int, clientID string, j int, signer int) TxResult {
	w.Block(j, 1)
	return w.UpdateClientNoCommit(i, clientID, j, signer)
}

// UpdateClientNoCommit submits the latest committed header of chain j.
func (w *World) UpdateClientNoCommit(i int, clientID string, j int, signer int) TxResult {
	c, cp := w.Chains[i], w.Chains[j]
	trusted, ok := c.GetClientLatestHeight(clientID).(clienttypes.Height)
	if !ok {
		vx.Harnessf("client %s has no latest height", clientID)
	}
	hdr, err := cp.IBCClientHeader(cp.LatestCommittedHeader, trusted)
	if err != nil {
		vx.Harnessf("IBCClientHeader: %v", err)
	}
	msg, err := clienttypes.NewMsgUpdateClient(clientID, hdr, w.Addr(i, signer).String())
	if err != nil {
		vx.Harnessf("NewMsgUpdateClient: %v", err)
	}
	return w.Deliver(i, signer, msg)
}

// Proof queries chain i for a proof of `key` in the IBC store verifiable against the
// consensus state at revision height h (h-1 must be a committed version).
func (w *World) Proof(i int, key []byte, h uint64) ([]byte, clienttypes.Height) {
	return w.ProofForStore(i, ibcexported.StoreKey, key, h)
}

// ProofForStore is Proof for an arbitrary module store. A height for which the chain can
// serve no proof yields an empty proof (which verification then rejects).
func (w *World) ProofForStore(i int, store string, key []byte, h uint64) ([]byte, clienttypes.Height) {
	c := w.Chains[i]
	ph := clienttypes.NewHeight(clienttypes.ParseChainID(c.ChainID), h)
	if h < 2 || int64(h) > w.Height(i)+1 {
		return nil, ph
	}
	res, err := c.App.Query(w.Ctx(i).Context(), &abci.RequestQuery{
		Path: fmt.Sprintf("store/%s/key", store), Height: int64(h) - 1, Data: key, Prove: true,
	})
	if err != nil || res == nil || res.ProofOps == nil {
		return nil, ph
	}
	mp, err := commitmenttypes.ConvertProofs(res.ProofOps)
	if err != nil {
		return nil, ph
	}
	bz, err := c.App.AppCodec().Marshal(&mp)
	if err != nil {
		return nil, ph
	}
	return bz, ph
}

// BankBalance of an address.
func (w *World) Balance(i int, addr sdk.AccAddress, denom string) sdk.Coin {
	return w.App(i).BankKeeper.GetBalance(w.Ctx(i), addr, denom)
}

// Supply of a denom.
func (w *World) Supply(i int, denom string) sdk.Coin {
	return w.App(i).BankKeeper.GetSupply(w.Ctx(i), denom)
}

var _ = banktypes.ModuleName
var _ = bytes.Equal
