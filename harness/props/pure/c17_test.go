package pure

import (
	"fmt"
	"math/big"
	"testing"

	"pgregory.net/rapid"

	clienttypes "github.com/cosmos/ibc-go/v11/modules/core/02-client/types"
	channeltypes "github.com/cosmos/ibc-go/v11/modules/core/04-channel/types"

	"github.com/cosmos/ibc-go/v11/modules/apps/callbacks/verifx/vx"
)

// C17: heights are totally ordered (revision first, then height), text round-trips,
// elapsed timeouts stay elapsed, zero timeout components never elapse.

type hgt struct{ R, H uint64 }

type c17Case struct {
	A, B, C hgt    // three heights for the order laws
	TH      hgt    // timeout height
	TT      uint64 // timeout timestamp
	Now     hgt
	NowT    uint64
	Later   hgt // >= Now (constructed)
	LaterT  uint64
}

func (h hgt) ibc() clienttypes.Height { return clienttypes.NewHeight(h.R, h.H) }

// model order: lexicographic on (rev, height) with math/big
func (h hgt) cmp(o hgt) int {
	a, b := new(big.Int).SetUint64(h.R), new(big.Int).SetUint64(o.R)
	if c := a.Cmp(b); c != 0 {
		return c
	}
	return new(big.Int).SetUint64(h.H).Cmp(new(big.Int).SetUint64(o.H))
}

func genHgt(t *rapid.T, label string, pool []hgt) hgt {
	// reuse components of earlier heights often so that equal revisions / equal heights are common
	if len(pool) > 0 && rapid.IntRange(0, 2).Draw(t, label+"reuse") == 0 {
		p := pool[rapid.IntRange(0, len(pool)-1).Draw(t, label+"idx")]
		switch rapid.IntRange(0, 3).Draw(t, label+"how") {
		case 0:
			return p
		case 1:
			return hgt{p.R, vx.Near(t, p.H, label+"h")}
		case 2:
			return hgt{vx.Near(t, p.R, label+"r"), p.H}
		default:
			return hgt{p.H, p.R}
		}
	}
	return hgt{vx.U64().Draw(t, label+"R"), vx.U64().Draw(t, label+"H")}
}

func genC17(t *rapid.T) c17Case {
	var c c17Case
	c.A = genHgt(t, "a", nil)
	c.B = genHgt(t, "b", []hgt{c.A})
	c.C = genHgt(t, "c", []hgt{c.A, c.B})
	c.TH = genHgt(t, "th", []hgt{c.A, c.B, c.C, {0, 0}})
	if rapid.IntRange(0, 4).Draw(t, "thzero") == 0 {
		c.TH = hgt{}
	}
	c.TT = vx.U64().Draw(t, "tt")
	c.Now = genHgt(t, "now", []hgt{c.TH, c.A})
	if rapid.Bool().Draw(t, "nowTnear") {
		c.NowT = vx.Near(t, c.TT, "nowT")
	} else {
		c.NowT = vx.U64().Draw(t, "nowTr")
	}
	// Later >= Now by construction (no filtering): bump revision or height without wrapping
	c.Later = c.Now
	switch rapid.IntRange(0, 3).Draw(t, "laterKind") {
	case 0:
	case 1:
		c.Later.H = rapid.Uint64Range(c.Now.H, ^uint64(0)).Draw(t, "laterH")
	case 2:
		if c.Now.R < ^uint64(0) {
			c.Later.R = rapid.Uint64Range(c.Now.R+1, ^uint64(0)).Draw(t, "laterR")
			c.Later.H = vx.U64().Draw(t, "laterH2")
		}
	case 3:
		if c.Now.H < ^uint64(0) {
			c.Later.H = c.Now.H + 1
		}
	}
	c.LaterT = c.NowT
	if rapid.Bool().Draw(t, "laterTbump") {
		c.LaterT = rapid.Uint64Range(c.NowT, ^uint64(0)).Draw(t, "laterT")
	}
	return c
}

func sign(x int64) int {
	switch {
	case x < 0:
		return -1
	case x > 0:
		return 1
	}
	return 0
}

func modelElapsed(th hgt, tt uint64, now hgt, nowT uint64) bool {
	hEl := !(th.R == 0 && th.H == 0) && now.cmp(th) >= 0
	tEl := tt != 0 && new(big.Int).SetUint64(nowT).Cmp(new(big.Int).SetUint64(tt)) >= 0
	return hEl || tEl
}

func runC17(t rapid.TB, c c17Case, rec *vx.Case) {
	const id = "C17"
	hs := []hgt{c.A, c.B, c.C, c.TH, c.Now, c.Later}
	// exact agreement with the lexicographic model + consistency of the helpers
	for _, x := range hs {
		for _, y := range hs {
			got := x.ibc().Compare(y.ibc())
			if got != -1 && got != 0 && got != 1 {
				vx.Violatef(t, rec, id, "compare-range", "Compare(%v,%v)=%d not in {-1,0,1}", x, y, got)
			}
			want := x.cmp(y)
			if sign(got) != want {
				vx.Violatef(t, rec, id, "compare-model", "Compare(%v,%v)=%d, lexicographic model says %d", x, y, got, want)
			}
			if sign(y.ibc().Compare(x.ibc())) != -want {
				vx.Violatef(t, rec, id, "antisymmetry", "Compare(%v,%v) and Compare(%v,%v) not antisymmetric", x, y, y, x)
			}
			xi, yi := x.ibc(), y.ibc()
			if xi.LT(yi) != (want < 0) || xi.LTE(yi) != (want <= 0) || xi.GT(yi) != (want > 0) || xi.GTE(yi) != (want >= 0) || xi.EQ(yi) != (want == 0) {
				vx.Violatef(t, rec, id, "helpers", "LT/LTE/GT/GTE/EQ inconsistent for %v vs %v (model cmp %d)", x, y, want)
			}
		}
	}
	// transitivity on the triple in every arrangement
	tri := [][3]hgt{{c.A, c.B, c.C}, {c.A, c.C, c.B}, {c.B, c.A, c.C}, {c.B, c.C, c.A}, {c.C, c.A, c.B}, {c.C, c.B, c.A}}
	for _, p := range tri {
		if p[0].ibc().LTE(p[1].ibc()) && p[1].ibc().LTE(p[2].ibc()) && !p[0].ibc().LTE(p[2].ibc()) {
			vx.Violatef(t, rec, id, "transitivity", "%v<=%v<=%v but not %v<=%v", p[0], p[1], p[2], p[0], p[2])
		}
	}
	// text round trip
	for _, x := range hs {
		s := x.ibc().String()
		back, err := clienttypes.ParseHeight(s)
		if err != nil || back != x.ibc() {
			vx.Violatef(t, rec, id, "roundtrip", "ParseHeight(%q) = %v, %v; want %v", s, back, err, x)
		}
		if want := fmt.Sprintf("%d-%d", x.R, x.H); s != want {
			vx.Violatef(t, rec, id, "format", "String() = %q want %q", s, want)
		}
	}
	// Elapsed: exact model, monotonicity, zero components
	to := channeltypes.NewTimeout(c.TH.ibc(), c.TT)
	el := to.Elapsed(c.Now.ibc(), c.NowT)
	if el != modelElapsed(c.TH, c.TT, c.Now, c.NowT) {
		vx.Violatef(t, rec, id, "elapsed-model", "Elapsed(timeout=%v/%d, now=%v/%d)=%v, model says %v", c.TH, c.TT, c.Now, c.NowT, el, !el)
	}
	if c.Later.cmp(c.Now) < 0 || c.LaterT < c.NowT {
		vx.Harnessf("generator produced later < now: %+v", c)
	}
	el2 := to.Elapsed(c.Later.ibc(), c.LaterT)
	if el && !el2 {
		vx.Violatef(t, rec, id, "elapsed-monotone", "timeout %v/%d elapsed at %v/%d but not at later %v/%d", c.TH, c.TT, c.Now, c.NowT, c.Later, c.LaterT)
	}
	zeroH := channeltypes.NewTimeout(clienttypes.ZeroHeight(), 0)
	if zeroH.Elapsed(c.Now.ibc(), c.NowT) || zeroH.Elapsed(c.Later.ibc(), c.LaterT) {
		vx.Violatef(t, rec, id, "zero-elapses", "all-zero timeout elapsed at %v/%d", c.Now, c.NowT)
	}
	if channeltypes.NewTimeout(clienttypes.ZeroHeight(), c.TT).Elapsed(c.Now.ibc(), 0) && c.TT != 0 {
		// timestamp 0 < any non-zero timeout timestamp: must not elapse by time, and zero height never elapses
		vx.Violatef(t, rec, id, "zero-height-elapses", "zero timeout height elapsed at %v", c.Now)
	}
	if channeltypes.NewTimeout(c.TH.ibc(), 0).Elapsed(clienttypes.ZeroHeight(), c.NowT) && !(c.TH.R == 0 && c.TH.H == 0) && c.TH.cmp(hgt{}) > 0 {
		vx.Violatef(t, rec, id, "zero-timestamp-elapses", "zero timeout timestamp elapsed at time %d", c.NowT)
	}
	if channeltypes.NewTimeout(clienttypes.ZeroHeight(), c.TT).TimestampElapsed(c.NowT) != (c.TT != 0 && c.NowT >= c.TT) {
		vx.Violatef(t, rec, id, "ts-elapsed-model", "TimestampElapsed mismatch tt=%d now=%d", c.TT, c.NowT)
	}

	// classification
	revs := map[uint64]bool{c.A.R: true, c.B.R: true, c.C.R: true}
	nearH := c.TH.R == c.Now.R && (c.Now.H-c.TH.H <= 1 || c.TH.H-c.Now.H <= 1) && !(c.TH.R == 0 && c.TH.H == 0)
	nearT := c.TT != 0 && (c.NowT-c.TT <= 1 || c.TT-c.NowT <= 1)
	if len(revs) >= 2 {
		rec.Class("multi-revision")
	}
	if nearH {
		rec.Class("near-height-boundary")
	}
	if nearT {
		rec.Class("near-time-boundary")
	}
	if c.TH.R == 0 && c.TH.H == 0 {
		rec.Class("zero-timeout-height")
	}
	if c.TT == 0 {
		rec.Class("zero-timeout-timestamp")
	}
	if el {
		rec.Class("elapsed")
	}
	rec.NonTrivialIf(len(revs) >= 2 || nearH || nearT)
}

func TestC17(t *testing.T) {
	vx.Check(t, vx.Prop[c17Case]{
		ID:        "C17",
		Rule:      "cases = three heights + (timeout, now, later>=now) over full uint64^2 biased to boundaries; non-trivial = the height triple spans >=2 revisions or now is within +-1 of the timeout height/timestamp; distinct by full case encoding",
		MinNTFrac: 0.3,
		Gen:       genC17,
		Run:       runC17,
	})
}
