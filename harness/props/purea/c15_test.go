package purea

import (
	"fmt"
	"math"
	"math/big"
	"regexp"
	"strings"
	"testing"

	"pgregory.net/rapid"

	abci "github.com/cometbft/cometbft/abci/types"

	sdk "github.com/cosmos/cosmos-sdk/types"

	clienttypes "github.com/cosmos/ibc-go/v11/modules/core/02-client/types"
	connectiontypes "github.com/cosmos/ibc-go/v11/modules/core/03-connection/types"
	channeltypes "github.com/cosmos/ibc-go/v11/modules/core/04-channel/types"
	commitmenttypes "github.com/cosmos/ibc-go/v11/modules/core/23-commitment/types"
	host "github.com/cosmos/ibc-go/v11/modules/core/24-host"
	ibctm "github.com/cosmos/ibc-go/v11/modules/light-clients/07-tendermint"
	ibctesting "github.com/cosmos/ibc-go/v11/testing"

	"github.com/cosmos/ibc-go/v11/modules/apps/callbacks/verifx/sim"
	"github.com/cosmos/ibc-go/v11/modules/apps/callbacks/verifx/vx"
)

// C15: generated identifiers are unique over the whole history and validate; format-then-
// parse returns the same client type and sequence; no parser accepts an identifier whose
// sequence does not fit in 64 bits.

// =====================================================================================
// pure part
// =====================================================================================

type c15Case struct {
	Type   string // candidate client type
	Seq    uint64
	Digits string // numeric suffix probe (may exceed 2^64-1, may have leading zeros)
	Prefix string // prefix handed to host.ParseIdentifier
}

var c15MaxU64 = new(big.Int).SetUint64(math.MaxUint64)

const c15W = "abcdefghijklmnopqrstuvwxyzABCDEFGHIJKLMNOPQRSTUVWXYZ0123456789_"

// c15InModel is the language of client types read off the statement's anchors: word
// characters and dashes, first and last a word character, and short enough that
// "<type>-<max uint64>" is a valid 4..64 character identifier.
var c15TypeRe = regexp.MustCompile(`^[A-Za-z0-9_]([A-Za-z0-9_-]*[A-Za-z0-9_])?$`)

func c15InModel(s string) bool {
	return len(s) >= 2 && len(s) <= 64-21 && c15TypeRe.MatchString(s)
}

func genC15(t *rapid.T) c15Case {
	var c c15Case
	w := rapid.SampledFrom([]rune(c15W))
	mid := rapid.SampledFrom([]rune(c15W + "-----0123456789"))
	switch rapid.IntRange(0, 9).Draw(t, "typekind") {
	case 0:
		c.Type = rapid.SampledFrom([]string{"07-tendermint", "06-solomachine", "08-wasm", "09-localhost", "10-attestations", "ab", "a1", "0-0", "a--b", "x_-_y", "1-2-3"}).Draw(t, "known")
	case 1: // near misses
		c.Type = rapid.SampledFrom([]string{"", " ", "a", "-a", "a-", "a.b", "a/b", "a b", "ab-", "-", "--", "a+b", "é1", "ab\n", "07-tendermint-", strings.Repeat("a", 44), strings.Repeat("a", 43) + "-", strings.Repeat("ab", 40)}).Draw(t, "nearmiss")
	case 2: // length boundary
		n := rapid.IntRange(40, 46).Draw(t, "tlen")
		c.Type = string(w.Draw(t, "f")) + rapid.StringOfN(mid, n-2, n-2, -1).Draw(t, "m") + string(w.Draw(t, "l"))
	default:
		n := rapid.IntRange(0, 14).Draw(t, "mlen")
		c.Type = string(w.Draw(t, "f")) + rapid.StringOfN(mid, n, n, -1).Draw(t, "m") + string(w.Draw(t, "l"))
	}
	c.Seq = vx.U64().Draw(t, "seq")
	if rapid.IntRange(0, 2).Draw(t, "hiseq") == 0 {
		c.Seq = rapid.Uint64Range(1<<63, math.MaxUint64).Draw(t, "seqhi")
	}
	// numeric suffix probes
	var d string
	switch rapid.IntRange(0, 7).Draw(t, "digkind") {
	case 0:
		d = fmt.Sprint(vx.U64().Draw(t, "dU"))
	case 1: // just above the bound
		d = new(big.Int).Add(c15MaxU64, big.NewInt(int64(rapid.IntRange(1, 20).Draw(t, "dover")))).String()
	case 2: // at / just below the bound
		d = new(big.Int).Sub(c15MaxU64, big.NewInt(int64(rapid.IntRange(0, 3).Draw(t, "dunder")))).String()
	case 3: // 20 digits, anything
		d = string(rapid.SampledFrom([]rune("123456789")).Draw(t, "d0")) + rapid.StringOfN(rapid.SampledFrom([]rune("0123456789")), 19, 19, -1).Draw(t, "d19")
	case 4: // 21..26 digits
		n := rapid.IntRange(20, 25).Draw(t, "dn")
		d = string(rapid.SampledFrom([]rune("123456789")).Draw(t, "d0")) + rapid.StringOfN(rapid.SampledFrom([]rune("0123456789")), n, n, -1).Draw(t, "dN")
	case 5: // multiples of 2^64 plus a small value (wrap-around candidates)
		k := big.NewInt(int64(rapid.IntRange(1, 9).Draw(t, "k")))
		v := new(big.Int).Mul(k, new(big.Int).Lsh(big.NewInt(1), 64))
		d = v.Add(v, new(big.Int).SetUint64(rapid.Uint64Range(0, 100).Draw(t, "r"))).String()
	case 6: // 2^63 neighbourhood
		d = new(big.Int).Add(new(big.Int).Lsh(big.NewInt(1), 63), big.NewInt(int64(rapid.IntRange(-2, 2).Draw(t, "d63")))).String()
	default:
		d = rapid.StringOfN(rapid.SampledFrom([]rune("0123456789")), 1, 22, -1).Draw(t, "drand")
	}
	if rapid.IntRange(0, 3).Draw(t, "lz") == 0 {
		d = strings.Repeat("0", rapid.IntRange(1, 4).Draw(t, "nz")) + d
	}
	c.Digits = d
	c.Prefix = rapid.SampledFrom([]string{"channel-", "connection-", "client-", "x", "07-tendermint-", "a-"}).Draw(t, "prefix")
	return c
}

func runC15(t rapid.TB, c c15Case, rec *vx.Case) {
	const id = "C15"
	// ---- client type: format -> parse, validation
	accepted := clienttypes.ValidateClientType(c.Type) == nil
	model := c15InModel(c.Type)
	if accepted {
		rec.Class("type-accepted")
		seqs := []uint64{c.Seq, 0, math.MaxUint64}
		for _, n := range seqs {
			cid := clienttypes.FormatClientIdentifier(c.Type, n)
			ty, sq, err := clienttypes.ParseClientIdentifier(cid)
			if err != nil || ty != c.Type || sq != n {
				vx.Violatef(t, rec, id, "client-roundtrip", "ParseClientIdentifier(Format(%q,%d)=%q) = (%q,%d,%v)", c.Type, n, cid, ty, sq, err)
			}
			if err := host.ClientIdentifierValidator(cid); err != nil {
				vx.Violatef(t, rec, id, "client-id-invalid", "Format(%q,%d)=%q fails ClientIdentifierValidator: %v", c.Type, n, cid, err)
			}
			if !clienttypes.IsValidClientID(cid) {
				vx.Violatef(t, rec, id, "client-id-invalid", "Format(%q,%d)=%q is not IsValidClientID", c.Type, n, cid)
			}
		}
	} else {
		rec.Class("type-rejected")
	}
	if model && !accepted {
		rec.Add("type_model_accepts_code_rejects", 1)
	}
	if !model && accepted {
		rec.Add("type_code_accepts_model_rejects", 1)
	}

	// ---- channel / connection: format -> parse, validation
	chID := channeltypes.FormatChannelIdentifier(c.Seq)
	if n, err := channeltypes.ParseChannelSequence(chID); err != nil || n != c.Seq {
		vx.Violatef(t, rec, id, "channel-roundtrip", "ParseChannelSequence(%q) = (%d,%v), want %d", chID, n, err, c.Seq)
	}
	if err := host.ChannelIdentifierValidator(chID); err != nil || !channeltypes.IsValidChannelID(chID) {
		vx.Violatef(t, rec, id, "channel-id-invalid", "generated %q fails channel identifier validation: %v", chID, err)
	}
	if n, err := host.ParseIdentifier(chID, channeltypes.ChannelPrefix); err != nil || n != c.Seq {
		vx.Violatef(t, rec, id, "parseidentifier-roundtrip", "ParseIdentifier(%q) = (%d,%v), want %d", chID, n, err, c.Seq)
	}
	coID := connectiontypes.FormatConnectionIdentifier(c.Seq)
	if n, err := connectiontypes.ParseConnectionSequence(coID); err != nil || n != c.Seq {
		vx.Violatef(t, rec, id, "connection-roundtrip", "ParseConnectionSequence(%q) = (%d,%v), want %d", coID, n, err, c.Seq)
	}
	if err := host.ConnectionIdentifierValidator(coID); err != nil || !connectiontypes.IsValidConnectionID(coID) {
		vx.Violatef(t, rec, id, "connection-id-invalid", "generated %q fails connection identifier validation: %v", coID, err)
	}

	// ---- numeric-suffix probes: whatever is accepted must fit in 64 bits and be the decimal value
	val, okNum := new(big.Int).SetString(c.Digits, 10)
	if !okNum {
		vx.Harnessf("probe %q is not decimal", c.Digits)
	}
	fits := val.Cmp(c15MaxU64) <= 0
	probe := func(what, s string, got uint64, err error) {
		if err != nil {
			rec.Add("probe_rejected", 1)
			if fits {
				rec.Add("probe_rejected_but_fits", 1)
			}
			return
		}
		rec.Add("probe_accepted", 1)
		if !fits {
			vx.Violatef(t, rec, id, "accepts-overflowing-sequence", "%s(%q) accepted with sequence %d although %s does not fit in 64 bits", what, s, got, c.Digits)
		}
		if new(big.Int).SetUint64(got).Cmp(val) != 0 {
			vx.Violatef(t, rec, id, "wrong-sequence", "%s(%q) = %d, decimal value is %s", what, s, got, val)
		}
	}
	{
		s := channeltypes.ChannelPrefix + c.Digits
		n, err := channeltypes.ParseChannelSequence(s)
		probe("ParseChannelSequence", s, n, err)
		if channeltypes.IsValidChannelID(s) != (err == nil) {
			vx.Violatef(t, rec, id, "isvalid-disagrees", "IsValidChannelID(%q) disagrees with ParseChannelSequence error %v", s, err)
		}
	}
	{
		s := connectiontypes.ConnectionPrefix + c.Digits
		n, err := connectiontypes.ParseConnectionSequence(s)
		probe("ParseConnectionSequence", s, n, err)
	}
	{
		s := c.Prefix + c.Digits
		n, err := host.ParseIdentifier(s, c.Prefix)
		probe("ParseIdentifier", s, n, err)
	}
	if accepted || model {
		s := c.Type + "-" + c.Digits
		ty, n, err := clienttypes.ParseClientIdentifier(s)
		probe("ParseClientIdentifier", s, n, err)
		if err == nil && ty != c.Type {
			vx.Violatef(t, rec, id, "client-type-mismatch", "ParseClientIdentifier(%q) returned type %q, want %q", s, ty, c.Type)
		}
	}

	// ---- evidence
	hi := c.Seq >= 1<<63
	dashOrDigit := strings.ContainsAny(c.Type, "-0123456789")
	if hi {
		rec.Class("seq>=2^63")
	}
	if accepted && dashOrDigit {
		rec.Class("type-with-dash-or-digit")
	}
	if !fits {
		rec.Class("probe-overflows")
	} else if len(strings.TrimLeft(c.Digits, "0")) >= 19 {
		rec.Class("probe-19/20-digits-fits")
	}
	if strings.HasPrefix(c.Digits, "0") && len(c.Digits) > 1 {
		rec.Class("probe-leading-zeros")
	}
	if len(c.Type) >= 40 {
		rec.Class("type-length-boundary")
	}
	rec.NonTrivialIf(hi || (accepted && dashOrDigit))
}

func TestC15(t *testing.T) {
	vx.Check(t, vx.Prop[c15Case]{
		ID:        "C15",
		Rule:      "pure: case = client-type string (constructed from the accepted language incl. length boundary 40-46, known types, near misses) x sequence over full uint64 (1/3 forced >= 2^63) x decimal suffix probe (around 2^64, 2^63, 20-26 digits, k*2^64+r, leading zeros) x ParseIdentifier prefix; non-trivial = sequence >= 2^63 or an accepted client type containing '-' or digits; distinct by full case encoding",
		MinNTFrac: 0.4,
		Gen:       genC15,
		Run:       runC15,
	})
}

// =====================================================================================
// stateful part: histories of creations, including failing attempts
// =====================================================================================

type c15Op struct {
	K    string // client | solo | conninit | conntry | connfinish | chaninit | chantry | combo
	P    int    // path slot 0..2
	Side int    // 0: chain 0, 1: chain 1
	Bad  int    // 0 = honest attempt; >0 selects a way to make it fail
}

type c15Hist struct {
	Base [3]uint64 // initial next client / connection / channel sequence on both chains
	Ops  []c15Op
}

type c15End struct{ Client, Conn, Chan string }

type c15World struct {
	w    *sim.World
	ends [2][2]c15End
	seen map[string]int // "kind/chain/id" -> step of first appearance
	t    rapid.TB
	rec  *vx.Case
	// history bookkeeping
	outcomes []bool // per creating tx: true = success with >=1 id
	ids      int
}

func genC15Hist(t *rapid.T) c15Hist {
	var h c15Hist
	bases := []uint64{0, 0, 1, 9, 10, 99, 1 << 32, 1<<63 - 2, 1 << 63, 9999999999999999990, 10000000000000000000, math.MaxUint64 - 1000}
	for i := range h.Base {
		h.Base[i] = rapid.SampledFrom(bases).Draw(t, "base")
	}
	kinds := []string{"client", "client", "client", "solo", "conninit", "conninit", "conntry", "conntry", "connfinish", "chaninit", "chaninit", "chantry", "chantry", "combo", "combo"}
	n := rapid.IntRange(8, 24).Draw(t, "nops")
	for i := 0; i < n; i++ {
		op := c15Op{K: rapid.SampledFrom(kinds).Draw(t, "k"), P: rapid.IntRange(0, 1).Draw(t, "p"), Side: rapid.IntRange(0, 1).Draw(t, "side")}
		if rapid.IntRange(0, 3).Draw(t, "bad") == 0 {
			op.Bad = rapid.IntRange(1, 3).Draw(t, "badkind")
		}
		h.Ops = append(h.Ops, op)
	}
	return h
}

// ---- message builders ------------------------------------------------------------------

func (x *c15World) signer(chain int) string { return x.w.Addr(chain, 0).String() }

func (x *c15World) msgCreateTM(chain int, bad int) sdk.Msg {
	w := x.w
	other := 1 - chain
	w.Block(other, 1)
	cp := w.Chains[other]
	height, ok := cp.LatestCommittedHeader.GetHeight().(clienttypes.Height)
	if !ok {
		vx.Harnessf("no committed header height")
	}
	cfg := ibctesting.NewTendermintConfig()
	cs := ibctm.NewClientState(cp.ChainID, cfg.TrustLevel, cfg.TrustingPeriod, cfg.UnbondingPeriod, cfg.MaxClockDrift, height, commitmenttypes.GetSDKSpecs(), ibctesting.UpgradePath)
	cons := cp.LatestCommittedHeader.ConsensusState()
	switch bad {
	case 1:
		cs.TrustingPeriod = cs.UnbondingPeriod * 2 // fails validation
	case 2:
		cs.ChainId = ""
	case 3:
		cs.LatestHeight = clienttypes.ZeroHeight()
	}
	msg, err := clienttypes.NewMsgCreateClient(cs, cons, x.signer(chain))
	if err != nil {
		vx.Harnessf("NewMsgCreateClient: %v", err)
	}
	return msg
}

func (x *c15World) msgCreateSolo(chain int, bad int) sdk.Msg {
	sm := ibctesting.NewSolomachine(x.w.T, x.w.Chains[chain].Codec, "solomachine", "", 1)
	cs, cons := sm.ClientState(), sm.ConsensusState()
	if bad != 0 {
		cs.Sequence = 0 // invalid
	}
	msg, err := clienttypes.NewMsgCreateClient(cs, cons, x.signer(chain))
	if err != nil {
		vx.Harnessf("NewMsgCreateClient(solo): %v", err)
	}
	return msg
}

func (x *c15World) msgConnInit(p, side, bad int) sdk.Msg {
	e, cp := x.ends[p][side], x.ends[p][1-side]
	client, cpClient := e.Client, cp.Client
	if cpClient == "" {
		cpClient = "07-tendermint-0"
	}
	switch bad {
	case 1:
		client = "07-tendermint-77777" // does not exist
	case 2:
		client = "" // stateless failure
	case 3:
		client = "09-localhost-1"
	}
	return connectiontypes.NewMsgConnectionOpenInit(client, cpClient, x.w.Chains[1-side].GetPrefix(), ibctesting.DefaultOpenInitVersion, 0, x.signer(side))
}

func (x *c15World) msgConnTry(p, side, bad int) sdk.Msg {
	w := x.w
	e, cp := x.ends[p][side], x.ends[p][1-side]
	cpConn := cp.Conn
	if cpConn == "" {
		cpConn = "connection-0"
	}
	var proof []byte
	ph := clienttypes.NewHeight(1, 2)
	if e.Client != "" && strings.HasPrefix(e.Client, "07-tendermint-") {
		w.UpdateClient(side, e.Client, 1-side, 0)
		proof, ph = w.Chains[1-side].QueryProof(host.ConnectionKey(cpConn))
	}
	if len(proof) == 0 {
		proof = []byte("no proof")
	}
	client := e.Client
	cpClient := cp.Client
	switch bad {
	case 1:
		proof = append([]byte{}, proof...)
		proof[len(proof)/2] ^= 0x55
	case 2:
		cpConn = "connection-424242"
	case 3:
		cpClient = "07-tendermint-31337"
	}
	return connectiontypes.NewMsgConnectionOpenTry(client, cpConn, cpClient, w.Chains[1-side].GetPrefix(), []*connectiontypes.Version{ibctesting.ConnectionVersion}, 0, proof, ph, x.signer(side))
}

func (x *c15World) msgChanInit(p, side, bad int) sdk.Msg {
	e := x.ends[p][side]
	conn, port := e.Conn, ibctesting.MockPort
	switch bad {
	case 1:
		conn = "connection-555555"
	case 2:
		port = "nosuchport"
	case 3:
		conn = ""
	}
	return channeltypes.NewMsgChannelOpenInit(port, ibctesting.DefaultChannelVersion, channeltypes.UNORDERED, []string{conn}, ibctesting.MockPort, x.signer(side))
}

func (x *c15World) msgChanTry(p, side, bad int) sdk.Msg {
	w := x.w
	e, cp := x.ends[p][side], x.ends[p][1-side]
	cpChan := cp.Chan
	if cpChan == "" {
		cpChan = "channel-0"
	}
	var proof []byte
	ph := clienttypes.NewHeight(1, 2)
	if e.Client != "" && strings.HasPrefix(e.Client, "07-tendermint-") {
		w.UpdateClient(side, e.Client, 1-side, 0)
		proof, ph = w.Chains[1-side].QueryProof(host.ChannelKey(ibctesting.MockPort, cpChan))
	}
	if len(proof) == 0 {
		proof = []byte("no proof")
	}
	conn := e.Conn
	switch bad {
	case 1:
		proof = append([]byte{}, proof...)
		proof[len(proof)/2] ^= 0x55
	case 2:
		cpChan = "channel-434343"
	case 3:
		conn = "connection-565656"
	}
	return channeltypes.NewMsgChannelOpenTry(ibctesting.MockPort, ibctesting.DefaultChannelVersion, channeltypes.UNORDERED, []string{conn}, ibctesting.MockPort, cpChan, ibctesting.DefaultChannelVersion, proof, ph, x.signer(side))
}

// connFinish drives ack + confirm for path p when `side` holds an INIT end whose counterparty
// is TRYOPEN (no identifiers are generated by these steps).
func (x *c15World) connFinish(p, side int) {
	w := x.w
	e, cp := x.ends[p][side], x.ends[p][1-side]
	if e.Conn == "" || cp.Conn == "" || e.Client == "" || cp.Client == "" {
		return
	}
	w.UpdateClient(side, e.Client, 1-side, 0)
	proof, ph := w.Chains[1-side].QueryProof(host.ConnectionKey(cp.Conn))
	res := w.Deliver(side, 0, connectiontypes.NewMsgConnectionOpenAck(e.Conn, cp.Conn, proof, ph, ibctesting.ConnectionVersion, x.signer(side)))
	if !res.OK {
		x.rec.Add("connfinish_failed", 1)
		return
	}
	w.UpdateClient(1-side, cp.Client, side, 0)
	proof, ph = w.Chains[side].QueryProof(host.ConnectionKey(e.Conn))
	res = w.Deliver(1-side, 0, connectiontypes.NewMsgConnectionOpenConfirm(cp.Conn, proof, ph, x.signer(1-side)))
	if res.OK {
		x.rec.Add("connections_opened", 1)
	} else {
		x.rec.Add("connfinish_failed", 1)
	}
}

// ---- honest prerequisites (every creation they perform is judged like any other) -------------

func (x *c15World) ensureClient(step, p, s int) {
	if x.ends[p][s].Client == "" {
		ids := x.deliver(step, s, "create-client(prereq)", x.msgCreateTM(s, 0))
		x.ends[p][s].Client = c15First(ids, "client")
	}
}

func (x *c15World) connOpen(p, s int) bool {
	e := x.ends[p][s]
	if e.Conn == "" {
		return false
	}
	c, found := x.w.App(s).IBCKeeper.ConnectionKeeper.GetConnection(x.w.Ctx(s), e.Conn)
	return found && c.State == connectiontypes.OPEN
}

func (x *c15World) ensureConnInit(step, p, s int) {
	x.ensureClient(step, p, 0)
	x.ensureClient(step, p, 1)
	if x.ends[p][s].Conn == "" {
		ids := x.deliver(step, s, "conn-open-init(prereq)", x.msgConnInit(p, s, 0))
		x.ends[p][s].Conn = c15First(ids, "connection")
	}
}

// ensureConnOpen runs a full honest handshake for path p unless both ends are OPEN.
func (x *c15World) ensureConnOpen(step, p int) bool {
	if x.connOpen(p, 0) && x.connOpen(p, 1) {
		return true
	}
	x.ensureClient(step, p, 0)
	x.ensureClient(step, p, 1)
	ids := x.deliver(step, 0, "conn-open-init(prereq)", x.msgConnInit(p, 0, 0))
	if c := c15First(ids, "connection"); c != "" {
		x.ends[p][0].Conn = c
	} else {
		return false
	}
	ids = x.deliver(step, 1, "conn-open-try(prereq)", x.msgConnTry(p, 1, 0))
	if c := c15First(ids, "connection"); c != "" {
		x.ends[p][1].Conn = c
	} else {
		return false
	}
	x.connFinish(p, 0)
	return x.connOpen(p, 0) && x.connOpen(p, 1)
}

// ---- observation -----------------------------------------------------------------------------

type c15ID struct{ kind, id string }

func c15IDsFromEvents(evs []abci.Event) []c15ID {
	var out []c15ID
	for _, ev := range evs {
		var kind, key string
		switch ev.Type {
		case clienttypes.EventTypeCreateClient:
			kind, key = "client", clienttypes.AttributeKeyClientID
		case connectiontypes.EventTypeConnectionOpenInit, connectiontypes.EventTypeConnectionOpenTry:
			kind, key = "connection", connectiontypes.AttributeKeyConnectionID
		case channeltypes.EventTypeChannelOpenInit, channeltypes.EventTypeChannelOpenTry:
			kind, key = "channel", channeltypes.AttributeKeyChannelID
		default:
			continue
		}
		for _, a := range ev.Attributes {
			if a.Key == key {
				out = append(out, c15ID{kind, a.Value})
			}
		}
	}
	return out
}

// deliver sends one creating transaction and judges the identifiers it returned.
func (x *c15World) deliver(step int, chain int, what string, msgs ...sdk.Msg) []c15ID {
	const id = "C15"
	res := x.w.Deliver(chain, 0, msgs...)
	if !res.OK {
		x.outcomes = append(x.outcomes, false)
		x.rec.Add("creations_failed", 1)
		return nil
	}
	ids := c15IDsFromEvents(res.Events)
	x.outcomes = append(x.outcomes, len(ids) > 0)
	x.rec.Add("creations_ok", 1)
	if len(ids) < len(msgs) {
		vx.Harnessf("step %d (%s): %d creating messages succeeded but only %d identifiers found in events", step, what, len(msgs), len(ids))
	}
	for _, g := range ids {
		x.ids++
		k := fmt.Sprintf("%s/chain%d/%s", g.kind, chain, g.id)
		if first, dup := x.seen[k]; dup {
			vx.Violatef(x.t, x.rec, id, g.kind+"-id-reused", "step %d (%s): chain %d returned %s identifier %q which step %d already returned", step, what, chain, g.kind, g.id, first)
		}
		x.seen[k] = step
		var verr error
		var fmtOK bool
		switch g.kind {
		case "client":
			verr, fmtOK = host.ClientIdentifierValidator(g.id), clienttypes.IsValidClientID(g.id)
			if _, found := x.w.App(chain).IBCKeeper.ClientKeeper.GetClientState(x.w.Ctx(chain), g.id); !found {
				vx.Harnessf("step %d: created client %q not in store", step, g.id)
			}
		case "connection":
			verr, fmtOK = host.ConnectionIdentifierValidator(g.id), connectiontypes.IsValidConnectionID(g.id)
		case "channel":
			verr, fmtOK = host.ChannelIdentifierValidator(g.id), channeltypes.IsValidChannelID(g.id)
		}
		if verr != nil || !fmtOK {
			vx.Violatef(x.t, x.rec, id, g.kind+"-generated-id-invalid", "step %d (%s): chain %d generated %s identifier %q which fails validation (validator: %v, format ok: %v)", step, what, chain, g.kind, g.id, verr, fmtOK)
		}
		if len(g.id) >= 28 {
			x.rec.Class("generated-19/20-digit-id")
		}
	}
	return ids
}

func c15First(ids []c15ID, kind string) string {
	for _, g := range ids {
		if g.kind == kind {
			return g.id
		}
	}
	return ""
}

func runC15Hist(outer *testing.T) func(rapid.TB, c15Hist, *vx.Case) {
	return func(t rapid.TB, h c15Hist, rec *vx.Case) {
		w := sim.NewWorld(outer, 2, nil)
		x := &c15World{w: w, seen: map[string]int{}, t: t, rec: rec}
		// counters start where the case says (as an imported genesis could)
		for chain := 0; chain < 2; chain++ {
			k := w.App(chain).IBCKeeper
			k.ClientKeeper.SetNextClientSequence(w.Ctx(chain), h.Base[0])
			k.ConnectionKeeper.SetNextConnectionSequence(w.Ctx(chain), h.Base[1])
			k.ChannelKeeper.SetNextChannelSequence(w.Ctx(chain), h.Base[2])
			w.Block(chain, 1)
		}
		for i, op := range h.Ops {
			p, s := op.P%2, op.Side%2
			switch op.K {
			case "client":
				ids := x.deliver(i, s, "create-client", x.msgCreateTM(s, op.Bad))
				if c := c15First(ids, "client"); c != "" {
					x.ends[p][s].Client = c
				}
			case "solo":
				x.deliver(i, s, "create-solomachine", x.msgCreateSolo(s, op.Bad))
			case "conninit":
				if op.Bad == 0 {
					x.ensureClient(i, p, 0)
					x.ensureClient(i, p, 1)
				}
				ids := x.deliver(i, s, "conn-open-init", x.msgConnInit(p, s, op.Bad))
				if c := c15First(ids, "connection"); c != "" {
					x.ends[p][s].Conn = c
				}
			case "conntry":
				if op.Bad == 0 || x.ends[p][1-s].Conn == "" {
					x.ensureConnInit(i, p, 1-s)
				}
				ids := x.deliver(i, s, "conn-open-try", x.msgConnTry(p, s, op.Bad))
				if c := c15First(ids, "connection"); c != "" {
					x.ends[p][s].Conn = c
				}
			case "connfinish":
				x.connFinish(p, s)
			case "chaninit":
				if op.Bad == 0 {
					x.ensureConnInit(i, p, s)
				}
				ids := x.deliver(i, s, "chan-open-init", x.msgChanInit(p, s, op.Bad))
				if c := c15First(ids, "channel"); c != "" {
					x.ends[p][s].Chan = c
				}
			case "chantry":
				if x.ensureConnOpen(i, p) {
					// the counterparty end needs a channel in INIT for an honest TRY
					ids := x.deliver(i, 1-s, "chan-open-init(prereq)", x.msgChanInit(p, 1-s, 0))
					if c := c15First(ids, "channel"); c != "" {
						x.ends[p][1-s].Chan = c
					}
				}
				ids := x.deliver(i, s, "chan-open-try", x.msgChanTry(p, s, op.Bad))
				if c := c15First(ids, "channel"); c != "" {
					x.ends[p][s].Chan = c
				}
			case "combo":
				// several creations in one transaction; with Bad != 0 the last message fails and
				// the whole transaction (including the counters bumped by the first ones) is reverted
				msgs := []sdk.Msg{x.msgCreateTM(s, 0), x.msgCreateSolo(s, 0)}
				if x.ends[p][s].Client != "" && x.ends[p][1-s].Client != "" {
					msgs = append(msgs, x.msgConnInit(p, s, 0))
				}
				if op.Bad != 0 {
					msgs = append(msgs, x.msgConnInit(p, s, 1))
				}
				ids := x.deliver(i, s, "multi-msg", msgs...)
				if c := c15First(ids, "client"); c != "" {
					x.ends[p][s].Client = c
				}
				if c := c15First(ids, "connection"); c != "" {
					x.ends[p][s].Conn = c
				}
			default:
				vx.Harnessf("unknown op %q", op.K)
			}
		}
		// non-trivial: a failed creation between two successful ones
		firstOK, failAfter, okAfterFail := false, false, false
		for _, ok := range x.outcomes {
			switch {
			case ok && failAfter:
				okAfterFail = true
			case ok:
				firstOK = true
			case firstOK:
				failAfter = true
			}
		}
		kinds := map[string]bool{}
		for k := range x.seen {
			kinds[k[:strings.Index(k, "/")]] = true
		}
		for k := range map[string]bool{"client": true, "connection": true, "channel": true} {
			if kinds[k] {
				rec.Class("generated-%s-ids", k)
			}
		}
		if okAfterFail {
			rec.Class("failure-between-successes")
		}
		rec.Add("identifiers_generated", int64(x.ids))
		rec.NonTrivialIf(okAfterFail && x.ids >= 3)
	}
}

func TestC15History(t *testing.T) {
	vx.Check(t, vx.Prop[c15Hist]{
		ID:        "C15",
		Rule:      "stateful: 2 real chains whose next client/connection/channel sequences start at a drawn base (0 .. 2^64-1000, incl. 19/20-digit ranges); 8-22 ops of create-client (tendermint / solomachine), conn-open-init/try, conn ack+confirm, chan-open-init/try and multi-message transactions, 1/3 of them made to fail (bad client state, unknown client, corrupted proof, unknown counterparty, unbound port, last message of a multi-msg tx failing); identifiers are read from the events of successful transactions. non-trivial = >=3 identifiers generated and at least one failed creation between two successful ones; distinct by full history",
		MinNTFrac: 0.5,
		Gen:       genC15Hist,
		Run:       runC15Hist(t),
	})
}
