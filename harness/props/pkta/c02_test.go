package pkta

import (
	"testing"

	"pgregory.net/rapid"

	"github.com/cosmos/ibc-go/v11/modules/apps/callbacks/verifx/pktsim"
	"github.com/cosmos/ibc-go/v11/modules/apps/callbacks/verifx/sim"
	"github.com/cosmos/ibc-go/v11/modules/apps/callbacks/verifx/vx"
)

// C02: on an ORDERED channel the destination application receives packets exactly in send
// order with no gaps, a packet whose predecessor has not been received can never be
// received, and the sender processes acknowledgements in the same sequence order.
//
// Observation point: the scripted mock application's callback log. Per ORDERED channel end
// the committed OnRecvPacket entries must carry sequences 1,2,3,... in log order, and so must
// the committed OnAcknowledgementPacket entries. Every relay that is ahead of the model
// counter (receive of s with an earlier sequence unreceived, acknowledgement of s with an
// earlier one unacknowledged) must commit no callback and leave the snapshot unchanged.

// seqsOf lists, per channel end, the sequences of the committed callbacks of `kind` in log
// order (one entry per callback invocation).
func seqsOf(w *sim.World, kind string) map[endKey][]uint64 {
	out := map[endKey][]uint64{}
	for _, e := range w.Log {
		if e.Reverted || e.Kind != kind || e.V2 {
			continue
		}
		k := endKey{e.Chain, e.ID}
		out[k] = append(out[k], e.Seq)
	}
	return out
}

func runC02(outer *testing.T) func(t rapid.TB, h pktsim.History, rec *vx.Case) {
	return func(t rapid.TB, h pktsim.History, rec *vx.Case) {
		const id = "C02"
		w := pktsim.NewWorld(outer, h)
		ordered := map[endKey]bool{}
		for _, l := range w.Links {
			if l.Kind == sim.V1Ordered {
				ordered[endKey{l.Chain[0], l.ID(0)}] = true
				ordered[endKey{l.Chain[1], l.ID(1)}] = true
			}
		}
		var oooRecv, oooRecvFresh, oooAck, oooAckFresh, recvOK, ackOK, dupRecv int64
		for i, op := range h.Ops {
			// model counters BEFORE the step, from what the applications have observed so far
			recvd, acked := seqsOf(w, "recv"), seqsOf(w, "ack")
			st := execX(w, i, op)
			kind := relayKind(w, st)
			if kind != "" && !st.Pkt.V2 {
				p := st.Pkt
				s := p.Seq()
				switch {
				case kind == "recv" && ordered[dstEnd(w, p)]:
					next := uint64(len(recvd[dstEnd(w, p)])) + 1
					switch {
					case s > next:
						oooRecv++
						if st.Op.H < 0 && st.Op.K == "recv" {
							oooRecvFresh++
						}
						rec.Class("ooo-recv")
						if cb := committedIn(w, st, "recv", "ack", "timeout"); len(cb) > 0 {
							vx.Violatef(t, rec, id, "ooo-recv-reaches-app", "step %d: receive of seq %d while seq %d is still unreceived committed %d callback(s) (first: %s seq %d); %s", i, s, next, len(cb), cb[0].Kind, cb[0].Seq, pktsim.Describe(st))
						}
						if d := stateDiff(st.Before, st.After); len(d) > 0 {
							vx.Violatef(t, rec, id, "ooo-recv-changes-state", "step %d: receive of seq %d while seq %d is still unreceived changed state %v; %s", i, s, next, d, pktsim.Describe(st))
						}
					case s < next:
						dupRecv++
					default:
						if len(committedIn(w, st, "recv")) > 0 {
							recvOK++
						}
					}
				case kind == "ack" && ordered[srcEnd(w, p)]:
					next := uint64(len(acked[srcEnd(w, p)])) + 1
					switch {
					case s > next:
						oooAck++
						if st.Op.H < 0 && st.Op.K == "ack" && p.Ack1 != nil {
							oooAckFresh++
						}
						rec.Class("ooo-ack")
						if cb := committedIn(w, st, "recv", "ack", "timeout"); len(cb) > 0 {
							vx.Violatef(t, rec, id, "ooo-ack-reaches-app", "step %d: acknowledgement of seq %d while seq %d is still unacknowledged committed %d callback(s) (first: %s seq %d); %s", i, s, next, len(cb), cb[0].Kind, cb[0].Seq, pktsim.Describe(st))
						}
						if d := stateDiff(st.Before, st.After); len(d) > 0 {
							vx.Violatef(t, rec, id, "ooo-ack-changes-state", "step %d: acknowledgement of seq %d while seq %d is still unacknowledged changed state %v; %s", i, s, next, d, pktsim.Describe(st))
						}
					case s == next:
						if len(committedIn(w, st, "ack")) > 0 {
							ackOK++
						}
					}
				}
			}
			// invariant after every step: per ORDERED end the delivered / acknowledged sequences
			// are exactly 1,2,3,... in log order
			for _, kd := range []string{"recv", "ack"} {
				for k, seqs := range seqsOf(w, kd) {
					if !ordered[k] {
						continue
					}
					for j, s := range seqs {
						if s != uint64(j)+1 {
							sig := "recv-not-in-sequence"
							if kd == "ack" {
								sig = "ack-not-in-sequence"
							}
							vx.Violatef(t, rec, id, sig, "step %d: committed %s callbacks on ORDERED end chain %d %s have sequences %v (position %d holds %d, want %d); %s", i, kd, k.Chain, k.ID, seqs, j, s, j+1, pktsim.Describe(st))
						}
					}
				}
			}
		}
		perEnd := map[endKey]int{}
		maxOnEnd := 0
		for _, p := range w.Pkts {
			if !p.V2 && ordered[srcEnd(w, p)] {
				perEnd[srcEnd(w, p)]++
				if perEnd[srcEnd(w, p)] > maxOnEnd {
					maxOnEnd = perEnd[srcEnd(w, p)]
				}
			}
		}
		rec.Add("packets", int64(len(w.Pkts)))
		rec.Add("recv_in_order_ok", recvOK)
		rec.Add("ack_in_order_ok", ackOK)
		rec.Add("ooo_recv_attempts", oooRecv)
		rec.Add("ooo_recv_attempts_fresh_proof", oooRecvFresh)
		rec.Add("ooo_ack_attempts", oooAck)
		rec.Add("ooo_ack_attempts_fresh_proof_known_ack", oooAckFresh)
		rec.Add("dup_recv_attempts", dupRecv)
		if recvOK >= 3 {
			rec.Class("delivered>=3")
		}
		if ackOK >= 2 {
			rec.Class("acked>=2")
		}
		rec.NonTrivialIf(maxOnEnd >= 3 && oooRecv+oooAck >= 1)
	}
}

// genC02 draws histories dominated by one ORDERED channel direction: several sends, receives
// of arbitrary (hence often skipped-ahead or duplicate) packets, acknowledgements in arbitrary
// order, verbatim replays, and a little noise (client updates, blocks, rare timeouts).
func genC02(maxOps int) func(t *rapid.T) pktsim.History {
	return func(t *rapid.T) pktsim.History {
		h := pktsim.History{}
		mainLink := 0
		switch rapid.IntRange(0, 3).Draw(t, "world") {
		case 0:
			h.Links = []int{int(sim.V1Ordered)}
		case 1:
			h.Links = []int{int(sim.V1Ordered), int(sim.V1Ordered)}
		case 2:
			h.Links = []int{int(sim.V1Ordered), int(sim.V1Unordered)}
		default:
			h.Links = []int{int(sim.V1Unordered), int(sim.V1Ordered)}
			mainLink = 1
		}
		mainDir := rapid.IntRange(0, 1).Draw(t, "mainDir")
		kinds := []string{"recvnext", "recvnext", "recvnext", "acknext", "acknext", "acknext", "send", "send", "send", "recvnext", "acknext", "recv", "recv", "ack", "replay", "dupterm", "update", "block", "timeout"}
		n := rapid.IntRange(8, maxOps).Draw(t, "nops")
		sends := 0
		for i := 0; i < n; i++ {
			k := rapid.SampledFrom(kinds).Draw(t, "kind")
			if sends < 3 && k != "block" && k != "update" {
				k = "send"
			}
			if k == "timeout" && rapid.IntRange(0, 2).Draw(t, "rareTimeout") != 0 {
				k = "recv"
			}
			op := pktsim.Op{K: k, Sig: rapid.IntRange(0, 2).Draw(t, "sig")}
			switch k {
			case "send":
				op.L, op.D = mainLink, mainDir
				if rapid.IntRange(0, 9).Draw(t, "elsewhere") < 2 {
					op.L = rapid.IntRange(0, len(h.Links)-1).Draw(t, "link")
					op.D = rapid.IntRange(0, 1).Draw(t, "dir")
				}
				op.S = []sim.Script{genScript(t, i, []string{"ok", "ok", "ok", "ok", "ok", "err", "err", "async"})}
				if rapid.IntRange(0, 11).Draw(t, "shortTimeout") == 0 {
					op.TH = rapid.IntRange(2, 8).Draw(t, "th")
				}
				sends++
			case "recv", "ack", "timeout":
				op.P = rapid.IntRange(0, sends-1).Draw(t, "pkt")
				op.H = genSel(t, 85)
			case "recvnext", "acknext":
				op.L, op.D = mainLink, mainDir
				if rapid.IntRange(0, 9).Draw(t, "elsewhere") < 2 {
					op.L = rapid.IntRange(0, len(h.Links)-1).Draw(t, "link")
					op.D = rapid.IntRange(0, 1).Draw(t, "dir")
				}
				// N = 0: the in-order packet; N >= 1: skip ahead by N
				if a := rapid.IntRange(0, 5).Draw(t, "ahead"); a > 2 {
					op.N = a - 2
				}
				op.P = rapid.IntRange(0, sends-1).Draw(t, "pkt")
				op.H = genSel(t, 85)
			case "replay", "dupterm":
				op.N = rapid.IntRange(0, 40).Draw(t, "which")
			case "block", "update":
				op.L = rapid.IntRange(0, len(h.Links)-1).Draw(t, "link")
				op.D = rapid.IntRange(0, 1).Draw(t, "dir")
				op.N = rapid.IntRange(0, 2).Draw(t, "n")
			}
			h.Ops = append(h.Ops, op)
		}
		return h
	}
}

func TestC02(t *testing.T) {
	vx.Check(t, vx.Prop[pktsim.History]{
		ID:        "C02",
		Rule:      "histories over 2 chains with 1-2 v1 links (>=1 ORDERED): sends concentrated on one ORDERED direction, receives and acknowledgements of uniformly chosen packets (skip-ahead, duplicates, arbitrary ack order; 85% fresh proofs), verbatim replays, rare timeouts; non-trivial = >=3 packets sent from one ORDERED channel end and >=1 receive or acknowledgement attempted ahead of the model counter; distinct by full history",
		MinNTFrac: 0.4,
		Gen:       genC02(30),
		Run:       runC02(t),
	})
}
