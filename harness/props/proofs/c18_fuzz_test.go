package proofs

import (
	"bytes"
	"crypto/sha256"
	"fmt"
	"sync"
	"testing"

	dbm "github.com/cosmos/cosmos-db"
	"pgregory.net/rapid"

	"cosmossdk.io/log/v2"

	"github.com/cosmos/cosmos-sdk/store/v2/rootmulti"
	storetypes "github.com/cosmos/cosmos-sdk/store/v2/types"

	commitmenttypes "github.com/cosmos/ibc-go/v11/modules/core/23-commitment/types"
	commitmenttypesv2 "github.com/cosmos/ibc-go/v11/modules/core/23-commitment/types/v2"

	"github.com/cosmos/ibc-go/v11/modules/apps/callbacks/verifx/vx"
)

// A deterministic multistore (same code that serves proofs on a live chain: rootmulti over
// IAVL stores, no validators, no clock) so that a crasher found by the fuzzer reproduces in
// any process.
type fuzzStore struct {
	root  []byte
	model map[string]map[string][]byte // store -> key -> value
	seeds []fuzzSeed
}

type fuzzSeed struct {
	proof      []byte
	store      string
	key, value []byte
}

var (
	fuzzOnce sync.Once
	fuzzSt   *fuzzStore
	fuzzErr  error
)

func getFuzzStore() (*fuzzStore, error) {
	fuzzOnce.Do(func() {
		fs := &fuzzStore{model: map[string]map[string][]byte{}}
		ms := rootmulti.NewStore(dbm.NewMemDB(), log.NewNopLogger())
		names := []string{"acc", "gmp", "ibc", "transfer"}
		keys := map[string]*storetypes.KVStoreKey{}
		for _, n := range names {
			keys[n] = storetypes.NewKVStoreKey(n)
			ms.MountStoreWithDB(keys[n], storetypes.StoreTypeIAVL, nil)
		}
		if fuzzErr = ms.LoadLatestVersion(); fuzzErr != nil {
			return
		}
		val := func(s string) []byte { h := sha256.Sum256([]byte(s)); return h[:1+int(h[31])%24] }
		// two versions so that IAVL nodes of different versions exist
		for round := 0; round < 2; round++ {
			for _, n := range names {
				st := ms.GetKVStore(keys[n])
				if fs.model[n] == nil {
					fs.model[n] = map[string][]byte{}
				}
				for i := 0; i < 24; i++ {
					var k string
					switch i % 4 {
					case 0:
						k = fmt.Sprintf("commitments/ports/transfer/channels/channel-%d/sequences/%d", round, i)
					case 1:
						k = fmt.Sprintf("k%03d", i*3+round)
					case 2:
						k = string([]byte{byte(i * 9), byte(round)})
					default:
						k = fmt.Sprintf("%s/%d/%d", n, round, i)
					}
					v := val(n + "|" + k)
					st.Set([]byte(k), v)
					fs.model[n][k] = v
				}
			}
			ms.Commit()
		}
		cid := ms.LastCommitID()
		fs.root = cid.Hash
		prove := func(store string, key []byte) []byte {
			res, err := ms.Query(&storetypes.RequestQuery{Path: "/" + store + "/key", Data: key, Prove: true, Height: cid.Version})
			if err != nil || res.ProofOps == nil {
				fuzzErr = fmt.Errorf("query %s/%q: %v", store, key, err)
				return nil
			}
			mp, err := commitmenttypes.ConvertProofs(res.ProofOps)
			if err != nil {
				fuzzErr = err
				return nil
			}
			bz, err := mp.Marshal()
			if err != nil {
				fuzzErr = err
			}
			return bz
		}
		for _, n := range []string{"gmp", "ibc"} {
			ks := make([]string, 0, len(fs.model[n]))
			for k := range fs.model[n] {
				ks = append(ks, k)
			}
			sortStrings(ks)
			for i, k := range ks {
				if i%3 == 0 {
					fs.seeds = append(fs.seeds, fuzzSeed{prove(n, []byte(k)), n, []byte(k), fs.model[n][k]})
				}
				if i%5 == 0 {
					abs := []byte(k + "\x00")
					if _, ok := fs.model[n][string(abs)]; !ok {
						fs.seeds = append(fs.seeds, fuzzSeed{prove(n, abs), n, abs, nil})
					}
				}
			}
			for _, abs := range [][]byte{{0x00}, {0xff, 0xff, 0xff}, []byte("zzzz")} {
				if _, ok := fs.model[n][string(abs)]; !ok {
					fs.seeds = append(fs.seeds, fuzzSeed{prove(n, abs), n, abs, nil})
				}
			}
		}
		fuzzSt = fs
	})
	return fuzzSt, fuzzErr
}

func sortStrings(s []string) {
	for i := 1; i < len(s); i++ {
		for j := i; j > 0 && s[j] < s[j-1]; j-- {
			s[j], s[j-1] = s[j-1], s[j]
		}
	}
}

// fuzzOracle: whatever the bytes, acceptance needs a true statement.
func fuzzOracle(fs *fuzzStore, proof, rootHash []byte, store string, key, value []byte) (string, bool, bool) {
	var mp commitmenttypes.MerkleProof
	if err := mp.Unmarshal(proof); err != nil {
		return "", false, false
	}
	specs := commitmenttypes.GetSDKSpecs()
	root := commitmenttypes.NewMerkleRoot(rootHash)
	path := commitmenttypesv2.NewMerklePath([]byte(store), key)
	var mem, non bool
	vx.Recover(func() { mem = mp.VerifyMembership(specs, root, path, value) == nil })
	vx.Recover(func() { non = mp.VerifyNonMembership(specs, root, path) == nil })
	stored, present := fs.model[store][string(key)]
	_, knownStore := fs.model[store]
	if (mem || non) && !bytes.Equal(rootHash, fs.root) {
		return fmt.Sprintf("VIOLATION property=C18 sig=\"fuzz-foreign-root-accepted\": proof verifies (member=%v nonmember=%v) against root %x, the store's root is %x; key %q store %q proof %x", mem, non, rootHash, fs.root, key, store, proof), mem, non
	}
	if mem && !(present && len(value) > 0 && bytes.Equal(stored, value)) {
		return fmt.Sprintf("VIOLATION property=C18 sig=\"fuzz-false-membership-accepted\": membership of %q=%x in store %q verifies, model holds %x (present=%v); proof %x", key, value, store, stored, present, proof), mem, non
	}
	if non && (present || !knownStore) {
		return fmt.Sprintf("VIOLATION property=C18 sig=\"fuzz-false-nonmembership-accepted\": non-membership of %q in store %q verifies, model present=%v knownStore=%v; proof %x", key, store, present, knownStore, proof), mem, non
	}
	return "", mem, non
}

func FuzzC18Proof(f *testing.F) {
	fs, err := getFuzzStore()
	if err != nil {
		f.Fatalf("harness: cannot build the deterministic store: %v", err)
	}
	for _, s := range fs.seeds {
		msg, mem, non := fuzzOracle(fs, s.proof, fs.root, s.store, s.key, s.value)
		if msg != "" {
			f.Fatal(msg)
		}
		if (s.value != nil) != mem || (s.value == nil) != non {
			f.Fatalf("harness: seed for %s/%q does not verify as expected (member=%v nonmember=%v)", s.store, s.key, mem, non)
		}
		f.Add(s.proof, fs.root, s.store, s.key, s.value)
	}
	f.Fuzz(func(t *testing.T, proof, root []byte, store string, key, value []byte) {
		if msg, _, _ := fuzzOracle(fs, proof, root, store, key, value); msg != "" {
			t.Fatal(msg)
		}
	})
}

// TestC18FuzzSeeds: the fuzz target's oracle driven by rapid in the quick tier (the native fuzzer
// only runs in the thorough tier): a genuine seed proof with 0..3 byte edits of the wire bytes
// and optional edits of store / key / value.
type c18Flip struct {
	Seed  int
	Edits []c18Edit
	Store string // "" = the seed's store
	KeyX  []byte // xor-ed over the key (shorter of the two lengths)
	ValX  []byte
	RootX []byte // xor-ed over the root
	// KeyOf >= 0: the statement is about another seed's key (a proof for one key presented for another)
	KeyOf int
	ValOf bool // ... and that seed's value
}

type c18Edit struct {
	Pos int
	X   byte
	Op  string // flip | drop | dup
}

func genC18Flip(t *rapid.T) c18Flip {
	c := c18Flip{Seed: rapid.IntRange(0, 1<<10).Draw(t, "seed")}
	for k, n := 0, rapid.IntRange(0, 3).Draw(t, "edits"); k < n; k++ {
		c.Edits = append(c.Edits, c18Edit{rapid.IntRange(0, 1<<14).Draw(t, "pos"), byte(rapid.IntRange(1, 255).Draw(t, "x")), rapid.SampledFrom([]string{"flip", "flip", "flip", "drop", "dup"}).Draw(t, "op")})
	}
	if rapid.IntRange(0, 5).Draw(t, "otherstore") == 0 {
		c.Store = rapid.SampledFrom([]string{"gmp", "ibc", "acc", "nope"}).Draw(t, "store")
	}
	if rapid.IntRange(0, 3).Draw(t, "keyedit") == 0 {
		c.KeyX = genBytes(t, 1, 3, "keyx")
	}
	if rapid.IntRange(0, 3).Draw(t, "valedit") == 0 {
		c.ValX = genBytes(t, 1, 3, "valx")
	}
	if rapid.IntRange(0, 5).Draw(t, "rootedit") == 0 {
		c.RootX = genBytes(t, 1, 2, "rootx")
	}
	c.KeyOf = -1
	if rapid.IntRange(0, 3).Draw(t, "keyof") == 0 {
		c.KeyOf = rapid.IntRange(0, 1<<10).Draw(t, "keyofidx")
		c.ValOf = rapid.Bool().Draw(t, "valof")
	}
	return c
}

func runC18Flip(t rapid.TB, c c18Flip, rec *vx.Case) {
	fs, err := getFuzzStore()
	if err != nil {
		vx.Harnessf("deterministic store: %v", err)
	}
	s := fs.seeds[c.Seed%len(fs.seeds)]
	proof := append([]byte(nil), s.proof...)
	for _, e := range c.Edits {
		if len(proof) == 0 {
			break
		}
		i := e.Pos % len(proof)
		switch e.Op {
		case "drop":
			proof = append(proof[:i:i], proof[i+1:]...)
		case "dup":
			proof = append(proof[:i+1:i+1], proof[i:]...)
		default:
			proof[i] ^= e.X
		}
	}
	store := s.store
	if c.Store != "" {
		store = c.Store
	}
	key, val := append([]byte(nil), s.key...), append([]byte(nil), s.value...)
	if c.KeyOf >= 0 {
		o := fs.seeds[c.KeyOf%len(fs.seeds)]
		key = append([]byte(nil), o.key...)
		if c.ValOf {
			val = append([]byte(nil), o.value...)
		}
	}
	root := append([]byte(nil), fs.root...)
	for i := 0; i < len(c.RootX) && i < len(root); i++ {
		root[i*7%len(root)] ^= c.RootX[i]
	}
	for i := 0; i < len(c.KeyX) && i < len(key); i++ {
		key[len(key)-1-i] ^= c.KeyX[i]
	}
	for i := 0; i < len(c.ValX) && i < len(val); i++ {
		val[i] ^= c.ValX[i]
	}
	msg, mem, non := fuzzOracle(fs, proof, root, store, key, val)
	if msg != "" {
		t.Fatal(msg)
	}
	edited := !bytes.Equal(proof, s.proof)
	pristine := !edited && store == s.store && bytes.Equal(key, s.key) && bytes.Equal(val, s.value) && bytes.Equal(root, fs.root)
	if pristine && ((s.value != nil) != mem || (s.value == nil) != non) {
		vx.Violatef(t, rec, c18, "true-statement-rejected", "genuine seed proof for %s/%q does not verify (member=%v nonmember=%v)", s.store, s.key, mem, non)
	}
	switch {
	case pristine:
		rec.Class("pristine")
	case mem || non:
		rec.Class("edited-accepted-true-statement")
	default:
		rec.Class("edited-rejected")
	}
	if s.value == nil {
		rec.Class("seed-nonmembership")
	} else {
		rec.Class("seed-membership")
	}
	if !bytes.Equal(root, fs.root) {
		rec.Class("foreign-root")
	}
	if c.KeyOf >= 0 {
		rec.Class("proof-of-other-key")
	}
	rec.NonTrivialIf(edited || !pristine)
}

func TestC18FuzzSeeds(t *testing.T) {
	vx.Check(t, vx.Prop[c18Flip]{
		ID:        c18,
		Rule:      "seed corpus of FuzzC18Proof (genuine membership / non-membership proofs from a deterministic 4-store rootmulti) with 0..3 byte flips/drops/duplications of the proof's wire bytes and optional edits of root, store name, key (xor, or the key of another seed) and value; oracle: verifies => root is the store root and the model map agrees; non-trivial = anything edited",
		MinNTFrac: 0.5,
		Gen:       genC18Flip,
		Run:       runC18Flip,
	})
}
