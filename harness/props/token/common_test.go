package token

import (
	"fmt"

	"github.com/cosmos/ibc-go/v11/modules/apps/callbacks/verifx/tokensim"
	"github.com/cosmos/ibc-go/v11/modules/apps/callbacks/verifx/vx"
)

const assumeDenoms = "native denominations are drawn from a fixed pool (ufoo, atom2, ubar, gamm/pool/1, factory/osmo1abc/tok, x:y.z_w): none has a non-first '/'-segment that looks like a channel or client identifier; base denominations such as gamm/pool-1 or transfer/channel-0/foo, which transfertypes.ExtractDenomFromPath misparses, belong to C33/C42 and are excluded here by construction"

// tally collects what a history exercised, for the class histogram and the non-trivial rules.
type tally struct {
	kinds       map[int]bool // link kinds that carried a committed packet
	refunds     int
	errAcks     int
	timeouts    int
	multihop    int // delivered legs that minted a voucher with >= 2 hops
	returns     int // delivered legs that released escrow
	dupTerminal int
	sends       int
	rejected    int
	noops       int
	again       int
	twoLegs     int
	unexpOK     int
	unexpErr    int
	dataNotes   int
	maxSameEsc  int
	donations   int
	edgeRecv    int // receives delivered in the block whose time equals the packet timeout
	edgeRecvOK  int // ... that were accepted (block time == timeout - 5 s or earlier never counts here)
	edgeTO      int // timeouts proven at exactly the requested destination height
	edgeTOOK    int
}

func newTally() *tally { return &tally{kinds: map[int]bool{}} }

func (ta *tally) note(w *tokensim.World, st *tokensim.Step) {
	if st.HadTx && st.Res.OK && st.Noop {
		ta.noops++
	}
	if st.DataNote != "" {
		ta.dataNotes++
	}
	if st.Edge && st.EdgeAligned && st.HadTx {
		committed := st.Res.OK && !st.Noop
		if st.Kind == "recv" {
			ta.edgeRecv++
			if committed {
				ta.edgeRecvOK++
			}
		} else {
			ta.edgeTO++
			if committed {
				ta.edgeTOOK++
			}
		}
	}
	switch st.Effect {
	case "send":
		ta.sends++
		ta.kinds[st.Pkt.Kind] = true
		if len(st.Pkt.Legs) > 1 {
			ta.twoLegs++
		}
	case "recv-ok":
		if !st.ExpectOK {
			ta.unexpOK++
		}
		for _, l := range st.Pkt.Legs {
			if l.Return {
				ta.returns++
			} else if l.Denom.Hops() >= 1 {
				ta.multihop++
			}
		}
	case "recv-err":
		ta.errAcks++
		if st.ExpectOK {
			ta.unexpErr++
		}
	case "refund":
		ta.refunds++
		if st.Kind == "timeout" {
			ta.timeouts++
		}
	case "again":
		ta.again++
	case "donate":
		ta.donations++
	}
	if st.Kind == "transfer" && st.HadTx && !st.Res.OK {
		ta.rejected++
	}
	if (st.Kind == "ack" || st.Kind == "timeout") && st.HadTx && st.Pkt != nil && st.Effect == "" && (st.Pkt.Status == tokensim.StAcked || st.Pkt.Status == tokensim.StRefunded) {
		ta.dupTerminal++
	}
	if m := w.MaxEndsEscrowingSameDenom(); m > ta.maxSameEsc {
		ta.maxSameEsc = m
	}
}

func (ta *tally) record(rec *vx.Case, h tokensim.History) {
	rec.Class("chains-%d", h.Spec.Chains)
	for k := range ta.kinds {
		rec.Class("sent-over-%s", tokensim.KindName(k))
	}
	if ta.multihop > 0 {
		rec.Class("multihop-voucher")
	}
	if ta.returns > 0 {
		rec.Class("voucher-returned")
	}
	if ta.errAcks > 0 {
		rec.Class("error-ack")
	}
	if ta.timeouts > 0 {
		rec.Class("timeout-refund")
	}
	if ta.dupTerminal > 0 {
		rec.Class("duplicate-terminal")
	}
	if ta.twoLegs > 0 {
		rec.Class("two-payload-packet")
	}
	if ta.maxSameEsc >= 2 {
		rec.Class("same-denom-on-%d-channels", ta.maxSameEsc)
	}
	if ta.unexpOK > 0 {
		rec.Class("unexpected-success-ack")
	}
	if ta.unexpErr > 0 {
		rec.Class("unexpected-error-ack")
	}
	rec.Add("sends_committed", int64(ta.sends))
	rec.Add("sends_rejected", int64(ta.rejected))
	rec.Add("refunds", int64(ta.refunds))
	rec.Add("error_acks", int64(ta.errAcks))
	rec.Add("multihop_mints", int64(ta.multihop))
	rec.Add("escrow_releases", int64(ta.returns))
	rec.Add("relay_noops", int64(ta.noops))
	rec.Add("processed_again", int64(ta.again))
	rec.Add("unexpected_success_ack", int64(ta.unexpOK))
	rec.Add("unexpected_error_ack", int64(ta.unexpErr))
	rec.Add("packet_data_mismatch", int64(ta.dataNotes))
	rec.Add("donations", int64(ta.donations))
	rec.Add("race_recv_in_block_with_time_eq_timeout", int64(ta.edgeRecv))
	rec.Add("race_recv_in_that_block_committed", int64(ta.edgeRecvOK))
	rec.Add("race_timeout_proven_at_exact_height", int64(ta.edgeTO))
	rec.Add("race_timeout_at_exact_height_committed", int64(ta.edgeTOOK))
	if ta.edgeRecv > 0 && ta.edgeTO > 0 {
		rec.Class("timeout-boundary-race")
	}
}

func fmtFindings(fs []tokensim.Finding) string {
	s := ""
	for _, f := range fs {
		s += fmt.Sprintf("[%s] %s; ", f.Sig, f.Msg)
	}
	return s
}
