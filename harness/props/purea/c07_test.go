package purea

import (
	"bytes"
	"crypto/sha256"
	"encoding/binary"
	"fmt"
	"sort"
	"testing"

	"pgregory.net/rapid"

	clienttypes "github.com/cosmos/ibc-go/v11/modules/core/02-client/types"
	channeltypes "github.com/cosmos/ibc-go/v11/modules/core/04-channel/types"
	channeltypesv2 "github.com/cosmos/ibc-go/v11/modules/core/04-channel/v2/types"

	"github.com/cosmos/ibc-go/v11/modules/apps/callbacks/verifx/vx"
)

// C07: packet and acknowledgement commitments are deterministic functions of exactly the
// committed fields, with a fixed-length preimage layout, and equal the specification formula.
//
// Oracle (all written from the property text, not from the code):
//   (1) differential: bytes == independent re-implementation of the formula
//         v1 packet  sha256( BE64(ts) | BE64(rev) | BE64(height) | sha256(data) )
//         v1 ack     sha256( ack )
//         v2 packet  sha256( 0x02 | H(dest) | H(BE64(ts)) | H( H(H(sp)|H(dp)|H(ver)|H(enc)|H(val)) for each payload, in order ) )
//         v2 ack     sha256( 0x02 | H(ack_1) | H(ack_2) | ... )
//   (2) injectivity over a family of variants of one base object (one generated edit + the
//       whole neighbourhood of one-byte boundary shifts, adjacent swaps, split/merge): variants
//       with different committed tuples have different commitments; variants with the same
//       committed tuple (edits of uncommitted fields only) have the same commitment.
//   (3) determinism over repeated calls.

type c07Payload struct {
	SP, DP, Ver, Enc string
	Val              []byte
}

type c07V1 struct {
	Seq            uint64
	SP, SC, DP, DC string
	Data           []byte
	Rev, H, TS     uint64
}

type c07V2 struct {
	Seq      uint64
	Src, Dst string
	TS       uint64
	Pay      []c07Payload
}

// c07Edit is a plain-data description of how the second element of the pair is derived.
type c07Edit struct {
	Kind string
	I, J int
	N    int
	B    byte
	U    uint64
}

type c07Case struct {
	V1   c07V1
	V2   c07V2
	Ack1 []byte
	Ack2 [][]byte
	E1   c07Edit // edit of the v1 packet / v1 ack
	E2   c07Edit // edit of the v2 packet
	EA   c07Edit // edit of the v2 acknowledgement
}

// ---- independent reference formulas -----------------------------------------------------

func c07H(parts ...[]byte) []byte {
	h := sha256.New()
	for _, p := range parts {
		h.Write(p)
	}
	return h.Sum(nil)
}

func c07BE(u uint64) []byte {
	var b [8]byte
	binary.BigEndian.PutUint64(b[:], u)
	return b[:]
}

func c07RefV1(p c07V1) []byte {
	pre := append([]byte{}, c07BE(p.TS)...)
	pre = append(pre, c07BE(p.Rev)...)
	pre = append(pre, c07BE(p.H)...)
	pre = append(pre, c07H(p.Data)...)
	if len(pre) != 8+8+8+32 {
		vx.Harnessf("reference v1 preimage has length %d", len(pre))
	}
	return c07H(pre)
}

func c07RefV2(p c07V2) []byte {
	var app []byte
	for _, pl := range p.Pay {
		app = append(app, c07H(c07H([]byte(pl.SP)), c07H([]byte(pl.DP)), c07H([]byte(pl.Ver)), c07H([]byte(pl.Enc)), c07H(pl.Val))...)
	}
	pre := []byte{0x02}
	pre = append(pre, c07H([]byte(p.Dst))...)
	pre = append(pre, c07H(c07BE(p.TS))...)
	pre = append(pre, c07H(app)...)
	if len(pre) != 1+32*3 {
		vx.Harnessf("reference v2 preimage has length %d", len(pre))
	}
	return c07H(pre)
}

func c07RefAck2(acks [][]byte) []byte {
	pre := []byte{0x02}
	for _, a := range acks {
		pre = append(pre, c07H(a)...)
	}
	return c07H(pre)
}

// ---- canonical (injective) encodings of the committed tuples -------------------------------

func c07LP(dst []byte, b []byte) []byte {
	dst = binary.BigEndian.AppendUint32(dst, uint32(len(b)))
	return append(dst, b...)
}

func (p c07V1) committed() string {
	e := append([]byte{}, c07BE(p.TS)...)
	e = append(e, c07BE(p.Rev)...)
	e = append(e, c07BE(p.H)...)
	return string(c07LP(e, p.Data))
}

func (p c07V2) committed() string {
	e := c07LP(nil, []byte(p.Dst))
	e = append(e, c07BE(p.TS)...)
	e = binary.BigEndian.AppendUint32(e, uint32(len(p.Pay)))
	for _, pl := range p.Pay {
		e = c07LP(e, []byte(pl.SP))
		e = c07LP(e, []byte(pl.DP))
		e = c07LP(e, []byte(pl.Ver))
		e = c07LP(e, []byte(pl.Enc))
		e = c07LP(e, pl.Val)
	}
	return string(e)
}

func c07AckCommitted(acks [][]byte) string {
	e := binary.BigEndian.AppendUint32(nil, uint32(len(acks)))
	for _, a := range acks {
		e = c07LP(e, a)
	}
	return string(e)
}

// ---- conversion to ibc-go types --------------------------------------------------------------

func (p c07V1) ibc() channeltypes.Packet {
	return channeltypes.NewPacket(p.Data, p.Seq, p.SP, p.SC, p.DP, p.DC, clienttypes.NewHeight(p.Rev, p.H), p.TS)
}

func (p c07V2) ibc() channeltypesv2.Packet {
	out := channeltypesv2.Packet{Sequence: p.Seq, SourceClient: p.Src, DestinationClient: p.Dst, TimeoutTimestamp: p.TS}
	for _, pl := range p.Pay {
		out.Payloads = append(out.Payloads, channeltypesv2.Payload{SourcePort: pl.SP, DestinationPort: pl.DP, Version: pl.Ver, Encoding: pl.Enc, Value: pl.Val})
	}
	return out
}

// ---- edits ---------------------------------------------------------------------------------

func c07Clone2(p c07V2) c07V2 {
	q := p
	q.Pay = make([]c07Payload, len(p.Pay))
	for i, pl := range p.Pay {
		pl.Val = append([]byte{}, pl.Val...)
		q.Pay[i] = pl
	}
	return q
}

func c07CloneAcks(a [][]byte) [][]byte {
	out := make([][]byte, len(a))
	for i := range a {
		out[i] = append([]byte{}, a[i]...)
	}
	return out
}

// v2 packets are seen as a flat list of byte fields: dst, then 5 fields per payload.
func c07Fields(p c07V2) [][]byte {
	f := [][]byte{[]byte(p.Dst)}
	for _, pl := range p.Pay {
		f = append(f, []byte(pl.SP), []byte(pl.DP), []byte(pl.Ver), []byte(pl.Enc), append([]byte{}, pl.Val...))
	}
	return f
}

func c07FromFields(p c07V2, f [][]byte) c07V2 {
	q := p
	q.Dst = string(f[0])
	q.Pay = nil
	for i := 1; i+4 < len(f)+0; i += 5 {
		q.Pay = append(q.Pay, c07Payload{SP: string(f[i]), DP: string(f[i+1]), Ver: string(f[i+2]), Enc: string(f[i+3]), Val: f[i+4]})
	}
	return q
}

// shift moves n bytes across the boundary between fields[b] and fields[b+1]:
// forward = suffix of b to the front of b+1, otherwise prefix of b+1 to the end of b.
func c07Shift(f [][]byte, b, n int, forward bool) [][]byte {
	out := make([][]byte, len(f))
	for i := range f {
		out[i] = append([]byte{}, f[i]...)
	}
	if b < 0 || b+1 >= len(f) {
		return out
	}
	if forward {
		if n > len(out[b]) {
			n = len(out[b])
		}
		cut := len(out[b]) - n
		out[b+1] = append(append([]byte{}, out[b][cut:]...), out[b+1]...)
		out[b] = out[b][:cut]
	} else {
		if n > len(out[b+1]) {
			n = len(out[b+1])
		}
		out[b] = append(out[b], out[b+1][:n]...)
		out[b+1] = out[b+1][n:]
	}
	return out
}

func c07Mod(i, n int) int {
	if n <= 0 {
		return 0
	}
	i %= n
	if i < 0 {
		i += n
	}
	return i
}

func c07EditV1(p c07V1, e c07Edit) c07V1 {
	q := p
	q.Data = append([]byte{}, p.Data...)
	switch e.Kind {
	case "ts":
		q.TS = e.U
	case "rev":
		q.Rev = e.U
	case "h":
		q.H = e.U
	case "swap-rev-h":
		q.Rev, q.H = p.H, p.Rev
	case "swap-ts-h":
		q.TS, q.H = p.H, p.TS
	case "swap-ts-rev":
		q.TS, q.Rev = p.Rev, p.TS
	case "rot24": // rotate the 24-byte (ts|rev|h) block by N bytes: a pure boundary shift
		var blk []byte
		blk = append(blk, c07BE(p.TS)...)
		blk = append(blk, c07BE(p.Rev)...)
		blk = append(blk, c07BE(p.H)...)
		n := c07Mod(e.N, 24)
		blk = append(blk[n:], blk[:n]...)
		q.TS, q.Rev, q.H = binary.BigEndian.Uint64(blk[0:8]), binary.BigEndian.Uint64(blk[8:16]), binary.BigEndian.Uint64(blk[16:24])
	case "h-into-data": // move the low byte of the height into the data (shift across the last boundary)
		q.Data = append([]byte{byte(p.H)}, q.Data...)
		q.H = p.H >> 8
	case "data-flip":
		if len(q.Data) > 0 {
			q.Data[c07Mod(e.I, len(q.Data))] ^= e.B | 1
		} else {
			q.Data = []byte{e.B}
		}
	case "data-append":
		q.Data = append(q.Data, e.B)
	case "data-trunc":
		if len(q.Data) > 0 {
			q.Data = q.Data[:len(q.Data)-1]
		}
	case "data-hash": // the hash of the data used as data
		q.Data = c07H(p.Data)
	case "u-seq":
		q.Seq = e.U
	case "u-sp":
		q.SP = p.SP + "x"
	case "u-sc":
		q.SC = p.SC + "x"
	case "u-dp":
		q.DP = p.DC
		q.DC = p.DP
	case "u-all":
		q.Seq, q.SP, q.SC, q.DP, q.DC = e.U, p.DC, p.DP, p.SC, p.SP+"y"
	}
	return q
}

var c07V1Edits = []string{"ts", "rev", "h", "swap-rev-h", "swap-ts-h", "swap-ts-rev", "rot24", "rot24", "h-into-data", "data-flip", "data-append", "data-trunc", "data-hash", "u-seq", "u-sp", "u-sc", "u-dp", "u-all"}

var c07ShiftKinds = map[string]bool{"shift-fwd": true, "shift-back": true, "split": true, "merge": true, "swap": true, "rotate": true, "rot24": true, "h-into-data": true, "sort": true}

func c07EditV2(p c07V2, e c07Edit) c07V2 {
	q := c07Clone2(p)
	np := len(q.Pay)
	switch e.Kind {
	case "dst":
		q.Dst = p.Dst + string(rune('a'+e.B%3))
	case "dst-src": // destination replaced by the source client
		q.Dst, q.Src = p.Src, p.Dst
	case "ts":
		q.TS = e.U
	case "field-append":
		f := c07Fields(p)
		k := c07Mod(e.I, len(f))
		f[k] = append(f[k], "ab/"[e.B%3])
		q = c07FromFields(p, f)
	case "field-clear":
		f := c07Fields(p)
		k := c07Mod(e.I, len(f))
		if len(f[k]) == 0 {
			f[k] = []byte{'a'}
		} else {
			f[k] = nil
		}
		q = c07FromFields(p, f)
	case "field-swap": // swap two fields inside one payload (e.g. source and destination port)
		if np > 0 {
			f := c07Fields(p)
			b := 1 + 5*c07Mod(e.I, np)
			x, y := b+c07Mod(e.J, 5), b+c07Mod(e.J+1+c07Mod(e.N, 4), 5)
			f[x], f[y] = f[y], f[x]
			q = c07FromFields(p, f)
		}
	case "shift-fwd", "shift-back":
		f := c07Fields(p)
		q = c07FromFields(p, c07Shift(f, c07Mod(e.I, len(f)-1), 1+c07Mod(e.N, 3), e.Kind == "shift-fwd"))
	case "split": // one payload becomes two: every field is cut at N, first halves then second halves
		if np > 0 {
			k := c07Mod(e.I, np)
			a, b := q.Pay[k], q.Pay[k]
			cut := func(s string) (string, string) { n := c07Mod(e.N, len(s)+1); return s[:n], s[n:] }
			a.SP, b.SP = cut(a.SP)
			a.DP, b.DP = cut(a.DP)
			a.Ver, b.Ver = cut(a.Ver)
			a.Enc, b.Enc = cut(a.Enc)
			n := c07Mod(e.N, len(q.Pay[k].Val)+1)
			a.Val, b.Val = append([]byte{}, q.Pay[k].Val[:n]...), append([]byte{}, q.Pay[k].Val[n:]...)
			rest := append([]c07Payload{a, b}, q.Pay[k+1:]...)
			q.Pay = append(q.Pay[:k], rest...)
		}
	case "merge": // two adjacent payloads become one (field-wise concatenation)
		if np > 1 {
			k := c07Mod(e.I, np-1)
			a, b := q.Pay[k], q.Pay[k+1]
			m := c07Payload{SP: a.SP + b.SP, DP: a.DP + b.DP, Ver: a.Ver + b.Ver, Enc: a.Enc + b.Enc, Val: append(append([]byte{}, a.Val...), b.Val...)}
			rest := append([]c07Payload{m}, q.Pay[k+2:]...)
			q.Pay = append(q.Pay[:k], rest...)
		}
	case "swap":
		if np > 1 {
			i := c07Mod(e.I, np)
			j := c07Mod(i+1+c07Mod(e.J, np-1), np)
			q.Pay[i], q.Pay[j] = q.Pay[j], q.Pay[i]
		}
	case "rotate":
		if np > 1 {
			n := 1 + c07Mod(e.N, np-1)
			q.Pay = append(q.Pay[n:], q.Pay[:n]...)
		}
	case "dup":
		if np > 0 {
			k := c07Mod(e.I, np)
			q.Pay = append(q.Pay, q.Pay[k])
		}
	case "drop":
		if np > 0 {
			k := c07Mod(e.I, np)
			q.Pay = append(q.Pay[:k], q.Pay[k+1:]...)
		}
	case "add-empty":
		q.Pay = append(q.Pay, c07Payload{})
	case "u-seq":
		q.Seq = e.U
	case "u-src":
		q.Src = p.Src + "x"
	case "u-all":
		q.Seq, q.Src = e.U, p.Dst+p.Src+"y"
	}
	return q
}

var c07V2Edits = []string{"dst", "dst-src", "ts", "field-append", "field-clear", "field-swap", "shift-fwd", "shift-fwd", "shift-back", "shift-back", "split", "merge", "swap", "swap", "rotate", "dup", "drop", "add-empty", "u-seq", "u-src", "u-all"}

func c07EditAcks(a [][]byte, e c07Edit) [][]byte {
	q := c07CloneAcks(a)
	n := len(q)
	switch e.Kind {
	case "flip":
		if n > 0 {
			k := c07Mod(e.I, n)
			if len(q[k]) > 0 {
				q[k][c07Mod(e.J, len(q[k]))] ^= e.B | 1
			} else {
				q[k] = []byte{e.B}
			}
		}
	case "shift-fwd", "shift-back":
		if n > 1 {
			q = c07Shift(q, c07Mod(e.I, n-1), 1+c07Mod(e.N, 3), e.Kind == "shift-fwd")
		}
	case "split":
		if n > 0 {
			k := c07Mod(e.I, n)
			c := c07Mod(e.N, len(q[k])+1)
			x, y := append([]byte{}, q[k][:c]...), append([]byte{}, q[k][c:]...)
			rest := append([][]byte{x, y}, q[k+1:]...)
			q = append(q[:k], rest...)
		}
	case "merge":
		if n > 1 {
			k := c07Mod(e.I, n-1)
			m := append(append([]byte{}, q[k]...), q[k+1]...)
			rest := append([][]byte{m}, q[k+2:]...)
			q = append(q[:k], rest...)
		}
	case "swap":
		if n > 1 {
			i := c07Mod(e.I, n)
			j := c07Mod(i+1+c07Mod(e.J, n-1), n)
			q[i], q[j] = q[j], q[i]
		}
	case "sort":
		sort.Slice(q, func(i, j int) bool { return bytes.Compare(q[i], q[j]) < 0 })
	case "dup":
		if n > 0 {
			q = append(q, append([]byte{}, q[c07Mod(e.I, n)]...))
		}
	case "drop":
		if n > 0 {
			k := c07Mod(e.I, n)
			q = append(q[:k], q[k+1:]...)
		}
	case "add-empty":
		q = append(q, []byte{})
	case "hash-first": // an app ack replaced by its own hash
		if n > 0 {
			q[0] = c07H(q[0])
		}
	}
	return q
}

var c07AckEdits = []string{"flip", "shift-fwd", "shift-back", "split", "merge", "swap", "swap", "sort", "dup", "drop", "add-empty", "hash-first"}

// ---- generator ------------------------------------------------------------------------------

var c07Runes = []rune("ab/-1")
var c07Bytes = []byte{0x00, 0x01, 0x02, 'a', 'b', '/', 0xff}

func c07GenStr(t *rapid.T, label string, long bool) string {
	s := rapid.StringOfN(rapid.SampledFrom(c07Runes), 0, 5, -1).Draw(t, label)
	if long && rapid.IntRange(0, 5).Draw(t, label+"L") == 0 {
		n := rapid.IntRange(200, 1500).Draw(t, label+"N")
		chunk := s + "p"
		var b []byte
		for len(b) < n {
			b = append(b, chunk...)
		}
		return string(b)
	}
	return s
}

func c07GenBytes(t *rapid.T, label string, long bool) []byte {
	b := rapid.SliceOfN(rapid.SampledFrom(c07Bytes), 0, 6).Draw(t, label)
	if long && rapid.IntRange(0, 5).Draw(t, label+"L") == 0 {
		n := rapid.IntRange(500, 4096).Draw(t, label+"N")
		chunk := append(append([]byte{}, b...), 0x7f)
		var out []byte
		for len(out) < n {
			out = append(out, chunk...)
		}
		return out
	}
	if b == nil {
		b = []byte{}
	}
	return b
}

func c07GenEdit(t *rapid.T, label string, kinds []string) c07Edit {
	return c07Edit{
		Kind: rapid.SampledFrom(kinds).Draw(t, label+"kind"),
		I:    rapid.IntRange(0, 40).Draw(t, label+"i"),
		J:    rapid.IntRange(0, 40).Draw(t, label+"j"),
		N:    rapid.IntRange(0, 40).Draw(t, label+"n"),
		B:    rapid.Byte().Draw(t, label+"b"),
		U:    vx.U64().Draw(t, label+"u"),
	}
}

func genC07(t *rapid.T) c07Case {
	var c c07Case
	long := rapid.IntRange(0, 9).Draw(t, "long") == 0
	c.V1 = c07V1{
		Seq: vx.U64().Draw(t, "v1seq"),
		SP:  c07GenStr(t, "v1sp", false), SC: c07GenStr(t, "v1sc", false), DP: c07GenStr(t, "v1dp", false), DC: c07GenStr(t, "v1dc", false),
		Data: c07GenBytes(t, "v1data", long),
		Rev:  vx.U64().Draw(t, "v1rev"), H: vx.U64().Draw(t, "v1h"), TS: vx.U64().Draw(t, "v1ts"),
	}
	c.V2 = c07V2{Seq: vx.U64().Draw(t, "v2seq"), Src: c07GenStr(t, "v2src", false), Dst: c07GenStr(t, "v2dst", long), TS: vx.U64().Draw(t, "v2ts")}
	np := rapid.IntRange(0, 6).Draw(t, "npay")
	for i := 0; i < np; i++ {
		l := fmt.Sprintf("p%d", i)
		c.V2.Pay = append(c.V2.Pay, c07Payload{
			SP: c07GenStr(t, l+"sp", long), DP: c07GenStr(t, l+"dp", long), Ver: c07GenStr(t, l+"ver", long), Enc: c07GenStr(t, l+"enc", long),
			Val: c07GenBytes(t, l+"val", long),
		})
	}
	c.Ack1 = c07GenBytes(t, "ack1", long)
	na := rapid.IntRange(0, 6).Draw(t, "nack")
	c.Ack2 = [][]byte{}
	for i := 0; i < na; i++ {
		c.Ack2 = append(c.Ack2, c07GenBytes(t, fmt.Sprintf("ack2_%d", i), long))
	}
	c.E1 = c07GenEdit(t, "e1", c07V1Edits)
	c.E2 = c07GenEdit(t, "e2", c07V2Edits)
	c.EA = c07GenEdit(t, "ea", c07AckEdits)
	return c
}

// ---- the check ------------------------------------------------------------------------------

type c07Obs struct {
	desc string
	enc  string // canonical encoding of the committed tuple
	got  []byte // commitment computed by ibc-go
}

// c07Family checks injectivity both ways over a family of observations.
func c07Family(t rapid.TB, rec *vx.Case, fam string, list []c07Obs) (distinctTuples int) {
	byEnc := map[string]c07Obs{}
	byCommit := map[string]c07Obs{}
	for _, o := range list {
		if len(o.got) != 32 {
			vx.Violatef(t, rec, "C07", fam+"-length", "%s: commitment has %d bytes, want 32", o.desc, len(o.got))
		}
		if p, ok := byEnc[o.enc]; ok {
			if !bytes.Equal(p.got, o.got) {
				vx.Violatef(t, rec, "C07", fam+"-uncommitted-field-bound", "%s and %s have equal committed fields but commitments %x != %x", p.desc, o.desc, p.got, o.got)
			}
		} else {
			byEnc[o.enc] = o
		}
		if p, ok := byCommit[string(o.got)]; ok {
			if p.enc != o.enc {
				vx.Violatef(t, rec, "C07", fam+"-collision", "%s and %s differ in a committed field but share commitment %x\n tuple1=%q\n tuple2=%q", p.desc, o.desc, o.got, c07Short(p.enc), c07Short(o.enc))
			}
		} else {
			byCommit[string(o.got)] = o
		}
	}
	return len(byEnc)
}

func c07Short(s string) string {
	if len(s) > 300 {
		return s[:300] + "..."
	}
	return s
}

func runC07(t rapid.TB, c c07Case, rec *vx.Case) {
	const id = "C07"

	// ---------- v1 packets
	v1s := []struct {
		d string
		p c07V1
	}{{"base", c.V1}, {"edit:" + c.E1.Kind, c07EditV1(c.V1, c.E1)}}
	for _, k := range []string{"u-seq", "u-sp", "u-sc", "u-dp", "u-all", "rot24", "h-into-data", "data-hash"} {
		v1s = append(v1s, struct {
			d string
			p c07V1
		}{"nb:" + k, c07EditV1(c.V1, c07Edit{Kind: k, N: 1 + c.E1.N, U: c.E1.U})})
	}
	var o1 []c07Obs
	for _, v := range v1s {
		got := channeltypes.CommitPacket(v.p.ibc())
		if again := channeltypes.CommitPacket(v.p.ibc()); !bytes.Equal(got, again) {
			vx.Violatef(t, rec, id, "v1-nondeterministic", "CommitPacket returned %x then %x for %+v", got, again, v.p)
		}
		if want := c07RefV1(v.p); !bytes.Equal(got, want) {
			vx.Violatef(t, rec, id, "v1-formula", "v1 CommitPacket(%s)=%x, specification formula gives %x (ts=%d rev=%d h=%d len(data)=%d)", v.d, got, want, v.p.TS, v.p.Rev, v.p.H, len(v.p.Data))
		}
		o1 = append(o1, c07Obs{v.d, v.p.committed(), got})
	}
	c07Family(t, rec, "v1", o1)
	v1Differs := o1[0].enc != o1[1].enc

	// ---------- v1 acknowledgement
	ack1b := c07EditAcks([][]byte{c.Ack1}, c07Edit{Kind: "flip", J: c.E1.J, B: c.E1.B})[0]
	var oa1 []c07Obs
	for i, a := range [][]byte{c.Ack1, ack1b, append(append([]byte{}, c.Ack1...), c.E1.B), c07H(c.Ack1)} {
		got := channeltypes.CommitAcknowledgement(a)
		if want := c07H(a); !bytes.Equal(got, want) {
			vx.Violatef(t, rec, id, "ack1-formula", "v1 CommitAcknowledgement(%x)=%x, formula gives %x", a, got, want)
		}
		oa1 = append(oa1, c07Obs{fmt.Sprintf("ack1#%d", i), string(a), got})
	}
	c07Family(t, rec, "ack1", oa1)

	// ---------- v2 packets: base, generated edit, and the full one-step neighbourhood
	type v2v struct {
		d string
		p c07V2
	}
	v2s := []v2v{{"base", c.V2}, {"edit:" + c.E2.Kind, c07EditV2(c.V2, c.E2)}}
	f := c07Fields(c.V2)
	for b := 0; b+1 < len(f); b++ {
		v2s = append(v2s, v2v{fmt.Sprintf("nb:shift-fwd@%d", b), c07FromFields(c.V2, c07Shift(f, b, 1, true))})
		v2s = append(v2s, v2v{fmt.Sprintf("nb:shift-back@%d", b), c07FromFields(c.V2, c07Shift(f, b, 1, false))})
	}
	for i := 0; i+1 < len(c.V2.Pay); i++ {
		v2s = append(v2s, v2v{fmt.Sprintf("nb:swap@%d", i), c07EditV2(c.V2, c07Edit{Kind: "swap", I: i, J: 0})})
		v2s = append(v2s, v2v{fmt.Sprintf("nb:merge@%d", i), c07EditV2(c.V2, c07Edit{Kind: "merge", I: i})})
	}
	for i := range c.V2.Pay {
		v2s = append(v2s, v2v{fmt.Sprintf("nb:split@%d", i), c07EditV2(c.V2, c07Edit{Kind: "split", I: i, N: 1 + c.E2.N})})
		for j := 0; j < 5; j++ {
			v2s = append(v2s, v2v{fmt.Sprintf("nb:field-swap@%d.%d", i, j), c07EditV2(c.V2, c07Edit{Kind: "field-swap", I: i, J: j, N: c.E2.N})})
		}
	}
	for _, k := range []string{"u-seq", "u-src", "u-all", "dst-src", "add-empty"} {
		v2s = append(v2s, v2v{"nb:" + k, c07EditV2(c.V2, c07Edit{Kind: k, U: c.E2.U})})
	}
	var o2 []c07Obs
	for _, v := range v2s {
		got := channeltypesv2.CommitPacket(v.p.ibc())
		if again := channeltypesv2.CommitPacket(v.p.ibc()); !bytes.Equal(got, again) {
			vx.Violatef(t, rec, id, "v2-nondeterministic", "v2 CommitPacket returned %x then %x", got, again)
		}
		if want := c07RefV2(v.p); !bytes.Equal(got, want) {
			vx.Violatef(t, rec, id, "v2-formula", "v2 CommitPacket(%s)=%x, specification formula gives %x (dst=%q src=%q ts=%d payloads=%d)", v.d, got, want, c07Short(v.p.Dst), c07Short(v.p.Src), v.p.TS, len(v.p.Pay))
		}
		o2 = append(o2, c07Obs{v.d, v.p.committed(), got})
	}
	n2 := c07Family(t, rec, "v2", o2)
	v2Differs := o2[0].enc != o2[1].enc

	// ---------- v2 acknowledgements
	type av struct {
		d string
		a [][]byte
	}
	as := []av{{"base", c.Ack2}, {"edit:" + c.EA.Kind, c07EditAcks(c.Ack2, c.EA)}}
	for i := 0; i+1 < len(c.Ack2); i++ {
		as = append(as, av{fmt.Sprintf("nb:shift-fwd@%d", i), c07Shift(c.Ack2, i, 1, true)})
		as = append(as, av{fmt.Sprintf("nb:shift-back@%d", i), c07Shift(c.Ack2, i, 1, false)})
		as = append(as, av{fmt.Sprintf("nb:swap@%d", i), c07EditAcks(c.Ack2, c07Edit{Kind: "swap", I: i, J: 0})})
		as = append(as, av{fmt.Sprintf("nb:merge@%d", i), c07EditAcks(c.Ack2, c07Edit{Kind: "merge", I: i})})
	}
	for i := range c.Ack2 {
		as = append(as, av{fmt.Sprintf("nb:split@%d", i), c07EditAcks(c.Ack2, c07Edit{Kind: "split", I: i, N: 1 + c.EA.N})})
	}
	as = append(as, av{"nb:sort", c07EditAcks(c.Ack2, c07Edit{Kind: "sort"})}, av{"nb:add-empty", c07EditAcks(c.Ack2, c07Edit{Kind: "add-empty"})})
	var oa []c07Obs
	for _, v := range as {
		got := channeltypesv2.CommitAcknowledgement(channeltypesv2.Acknowledgement{AppAcknowledgements: v.a})
		if again := channeltypesv2.CommitAcknowledgement(channeltypesv2.Acknowledgement{AppAcknowledgements: v.a}); !bytes.Equal(got, again) {
			vx.Violatef(t, rec, id, "ack2-nondeterministic", "v2 CommitAcknowledgement returned %x then %x", got, again)
		}
		if want := c07RefAck2(v.a); !bytes.Equal(got, want) {
			vx.Violatef(t, rec, id, "ack2-formula", "v2 CommitAcknowledgement(%s)=%x, specification formula gives %x (acks=%x)", v.d, got, want, v.a)
		}
		oa = append(oa, c07Obs{v.d, c07AckCommitted(v.a), got})
	}
	na := c07Family(t, rec, "ack2", oa)
	ackDiffers := oa[0].enc != oa[1].enc

	// ---------- evidence
	cls := func(fam string, e c07Edit, differs bool) {
		switch {
		case !differs && len(e.Kind) > 2 && e.Kind[:2] == "u-":
			rec.Class("%s:uncommitted-edit-equal", fam)
		case !differs:
			rec.Class("%s:edit-is-identity", fam)
		case c07ShiftKinds[e.Kind]:
			rec.Class("%s:boundary-or-order:%s", fam, e.Kind)
		default:
			rec.Class("%s:field-edit", fam)
		}
	}
	cls("v1", c.E1, v1Differs)
	cls("v2", c.E2, v2Differs)
	cls("ack2", c.EA, ackDiffers)
	if len(c.V2.Pay) == 0 {
		rec.Class("v2:no-payload")
	}
	if len(c.V2.Pay) >= 4 {
		rec.Class("v2:many-payloads")
	}
	for _, pl := range c.V2.Pay {
		if len(pl.Val) > 400 || len(pl.SP) > 100 || len(pl.DP) > 100 || len(pl.Ver) > 100 || len(pl.Enc) > 100 {
			rec.Class("v2:long-field")
			break
		}
	}
	rec.Add("v2_family_distinct_tuples", int64(n2))
	rec.Add("v2_family_size", int64(len(o2)))
	rec.Add("ack2_family_distinct_tuples", int64(na))
	rec.Add("ack2_family_size", int64(len(oa)))
	rec.NonTrivialIf((v2Differs && c07ShiftKinds[c.E2.Kind]) || (ackDiffers && c07ShiftKinds[c.EA.Kind]) || (v1Differs && c07ShiftKinds[c.E1.Kind]))
}

func TestC07(t *testing.T) {
	vx.Check(t, vx.Prop[c07Case]{
		ID:        "C07",
		Rule:      "case = one v1 packet, one v2 packet (0-6 payloads, empty/short/multi-KB fields over a 5-symbol alphabet, full-range timeouts), one v1 ack, one v2 ack (0-6 app acks), each with one generated edit; Run adds the full one-step neighbourhood (1-byte shift across every field boundary, adjacent payload/ack swaps, split, merge, intra-payload field swaps, uncommitted-field edits). non-trivial = the generated pair differs in committed fields ONLY by a boundary shift / split / merge / reorder (v1: byte rotation of the ts|rev|height block or height byte moved into data); distinct by full case encoding",
		MinNTFrac: 0.3,
		Gen:       genC07,
		Run:       runC07,
	})
}

// FuzzC07 drives the same oracle from raw fuzzer bytes (thorough tier only).
func FuzzC07(f *testing.F) {
	f.Add([]byte("ab"), []byte("a/"), []byte("b"), []byte{1, 2}, []byte("x"), uint64(1), uint64(2), uint64(3), uint8(1))
	f.Fuzz(func(t *testing.T, a, b, c, d, e []byte, x, y, z uint64, n uint8) {
		cs := c07Case{
			V1:   c07V1{Seq: x, SP: string(a), SC: string(b), DP: string(c), DC: string(d), Data: e, Rev: x, H: y, TS: z},
			V2:   c07V2{Seq: y, Src: string(a), Dst: string(b), TS: z},
			Ack1: e, Ack2: [][]byte{a, b, c, d, e}[:int(n)%6],
			E1: c07Edit{Kind: c07V1Edits[int(n)%len(c07V1Edits)], I: int(x % 41), J: int(y % 41), N: int(z % 41), B: n, U: z},
			E2: c07Edit{Kind: c07V2Edits[int(n)%len(c07V2Edits)], I: int(y % 41), J: int(z % 41), N: int(x % 41), B: n, U: x},
			EA: c07Edit{Kind: c07AckEdits[int(n)%len(c07AckEdits)], I: int(z % 41), J: int(x % 41), N: int(y % 41), B: n, U: y},
		}
		fields := [][]byte{a, b, c, d, e}
		for i := 0; i < int(n>>4)%5; i++ {
			cs.V2.Pay = append(cs.V2.Pay, c07Payload{SP: string(fields[i%5]), DP: string(fields[(i+1)%5]), Ver: string(fields[(i+2)%5]), Enc: string(fields[(i+3)%5]), Val: fields[(i+4)%5]})
		}
		runC07(t, cs, nil)
	})
}
