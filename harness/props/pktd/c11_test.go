package pktd

import (
	"bytes"
	"fmt"
	"testing"

	"github.com/cosmos/gogoproto/proto"
	"pgregory.net/rapid"

	channeltypes "github.com/cosmos/ibc-go/v11/modules/core/04-channel/types"
	channeltypesv2 "github.com/cosmos/ibc-go/v11/modules/core/04-channel/v2/types"
	host "github.com/cosmos/ibc-go/v11/modules/core/24-host"
	hostv2 "github.com/cosmos/ibc-go/v11/modules/core/24-host/v2"
	"github.com/cosmos/ibc-go/v11/modules/core/exported"

	"github.com/cosmos/ibc-go/v11/modules/apps/callbacks/verifx/pktsim"
	"github.com/cosmos/ibc-go/v11/modules/apps/callbacks/verifx/sim"
	"github.com/cosmos/ibc-go/v11/modules/apps/callbacks/verifx/vx"
)

// C11: per (destination, sequence) at most one acknowledgement is ever written - by core
// in the receive transaction or later by the application - and once written it never
// changes; IBC v2 refuses an acknowledgement for a packet without a receipt; an async v2
// packet is retrievable from its receive until its acknowledgement is written and gone
// afterwards.
//
// Histories interleave sends, receives (sync and async scripts), relays, replays and the
// "application" writing acknowledgements by direct keeper call: correct, repeated, with a
// different ack, premature, for sequences that were never sent. `stash` models an
// application / middleware that stores the v2 async packet entry itself (exported keeper
// API), which is the only way the v2 receipt and existing-ack guards become reachable.

type c11Op struct {
	pktsim.Op
	A   string `json:"a,omitempty"`   // wack: ok | alt | err
	Off int    `json:"off,omitempty"` // wack / stash: 0 = the packet's own sequence, > 0 = never-sent sequence seq+1000+off
}

type c11Case struct {
	Ops []c11Op `json:"ops"`
}

var c11Links = []int{int(sim.V1Unordered), int(sim.V1Ordered), int(sim.V2Clients), int(sim.V2Alias)}

func genC11(t *rapid.T) c11Case {
	var c c11Case
	n := rapid.IntRange(8, 26).Draw(t, "nops")
	sends := 0
	kinds := []string{"send", "send", "send", "recv", "recv", "recv", "recv", "wack", "wack", "wack", "wack", "wack", "wack", "stash", "stash", "ack", "replay", "block"}
	for i := 0; i < n; i++ {
		k := rapid.SampledFrom(kinds).Draw(t, "kind")
		if sends == 0 {
			k = "send"
		}
		op := c11Op{}
		op.K = k
		pickPkt := func() int {
			if rapid.IntRange(0, 9).Draw(t, "recent") < 7 {
				return sends - 1 - rapid.IntRange(0, 1).Draw(t, "back")
			}
			return rapid.IntRange(0, sends).Draw(t, "pkt")
		}
		switch k {
		case "send":
			op.L = rapid.IntRange(0, len(c11Links)-1).Draw(t, "link")
			op.D = rapid.IntRange(0, 1).Draw(t, "dir")
			out := rapid.SampledFrom([]string{"async", "async", "async", "ok", "err"}).Draw(t, "out")
			op.S = []sim.Script{{N: i + 1, Out: out, W: []string{"k"}}}
			op.App = []string{rapid.SampledFrom([]string{"A", "B"}).Draw(t, "app")}
			if sim.LinkKind(c11Links[op.L]) >= sim.V2Clients && out != "async" && rapid.IntRange(0, 3).Draw(t, "second") == 0 {
				op.S = append(op.S, sim.Script{N: 1000 + i, Out: "ok"})
				op.App = append(op.App, "B")
			}
			sends++
		case "recv", "ack":
			op.P = pickPkt()
			op.H = -1
		case "wack":
			op.P = pickPkt()
			op.A = rapid.SampledFrom([]string{"ok", "ok", "alt", "err"}).Draw(t, "ack")
			if rapid.IntRange(0, 7).Draw(t, "never") == 0 {
				op.Off = rapid.IntRange(1, 3).Draw(t, "off")
			}
		case "stash":
			op.P = pickPkt()
			if rapid.IntRange(0, 5).Draw(t, "never") == 0 {
				op.Off = rapid.IntRange(1, 3).Draw(t, "off")
			}
		case "replay":
			op.N = rapid.IntRange(0, 40).Draw(t, "which")
		case "block":
			op.D = rapid.IntRange(0, 1).Draw(t, "dir")
		}
		c.Ops = append(c.Ops, op)
		if k == "stash" && rapid.IntRange(0, 9).Draw(t, "writeNow") < 8 {
			// the application that stashed the entry answers right away
			x := c11Op{A: rapid.SampledFrom([]string{"ok", "alt", "err"}).Draw(t, "ack"), Off: op.Off}
			x.K, x.P = "wack", op.P
			c.Ops = append(c.Ops, x)
		}
		if k == "send" && rapid.IntRange(0, 9).Draw(t, "recvNow") < 6 {
			r := c11Op{}
			r.K, r.P, r.H = "recv", sends-1, -1
			c.Ops = append(c.Ops, r)
		}
	}
	return c
}

// c11Track is the observation record of one (destination chain, v1|v2, id, sequence).
type c11Track struct {
	pkt      *sim.Pkt // the packet the key belongs to (for never-sent sequences: the packet it was derived from)
	seq      uint64
	real     bool   // seq is pkt's own sequence
	first    []byte // first non-empty ack commitment ever observed
	firstAt  int
	writes   int  // acknowledgement writes that were accepted (core in a receive tx, or the application)
	received bool // a receive transaction for the packet committed
	stashed  bool // the harness itself stored an async-packet entry for this key
}

func (tr *c11Track) name() string {
	if tr.pkt.V2 {
		return fmt.Sprintf("v2 %s seq %d", tr.pkt.P2.DestinationClient, tr.seq)
	}
	return fmt.Sprintf("v1 %s/%s seq %d", tr.pkt.P1.DestinationPort, tr.pkt.P1.DestinationChannel, tr.seq)
}

func (tr *c11Track) ackKey() []byte {
	if tr.pkt.V2 {
		return hostv2.PacketAcknowledgementKey(tr.pkt.P2.DestinationClient, tr.seq)
	}
	return host.PacketAcknowledgementKey(tr.pkt.P1.DestinationPort, tr.pkt.P1.DestinationChannel, tr.seq)
}

// syncScript reports whether receiving the packet makes core write an acknowledgement in the
// receive transaction, and whether it is a single-payload async v2/v1 packet.
func c11Script(p *sim.Pkt) (sync bool, async bool) {
	if !p.V2 {
		s, ok := sim.ParseScript(p.P1.Data)
		if ok && s.Out == "async" {
			return false, true
		}
		return true, false
	}
	for _, pl := range p.P2.Payloads {
		if s, ok := sim.ParseScript(pl.Value); ok && s.Out == "async" {
			return false, len(p.P2.Payloads) == 1
		}
	}
	return true, false
}

func runC11(outer *testing.T) func(t rapid.TB, c c11Case, rec *vx.Case) {
	return func(t rapid.TB, c c11Case, rec *vx.Case) {
		const id = "C11"
		w := pktsim.NewWorld(outer, pktsim.History{Links: c11Links})
		var tracks []*c11Track
		index := map[string]*c11Track{}
		track := func(p *sim.Pkt, seq uint64) *c11Track {
			dc := w.DstChain(p)
			tmp := &c11Track{pkt: p, seq: seq}
			k := fmt.Sprintf("%d|%s", dc, tmp.name())
			if tr, ok := index[k]; ok {
				return tr
			}
			tmp.real = seq == p.Seq()
			index[k] = tmp
			tracks = append(tracks, tmp)
			return tmp
		}
		storeOf := func(chain int) func(key []byte) []byte {
			st := w.Ctx(chain).KVStore(w.App(chain).GetKey(exported.StoreKey))
			return st.Get
		}

		repeated, premature, never, accepted, refused, asyncSeen, stashes, guardNoReceipt, guardAckExists := 0, 0, 0, 0, 0, 0, 0, 0, 0
		for i, op := range c.Ops {
			w.StepNo = i
			switch op.K {
			case "wack", "stash":
				if len(w.Pkts) == 0 {
					continue
				}
				p := w.Pkts[pktsim.Pick(len(w.Pkts), op.P)]
				dc := w.DstChain(p)
				seq := p.Seq()
				if op.Off > 0 {
					seq += 1000 + uint64(op.Off)
				}
				tr := track(p, seq)
				get := storeOf(dc)
				hadAck := len(get(tr.ackKey())) > 0
				if op.K == "stash" {
					if !p.V2 {
						continue
					}
					cp := p.P2
					cp.Sequence = seq
					w.App(dc).IBCKeeper.ChannelKeeperV2.SetAsyncPacket(w.Ctx(dc), cp.DestinationClient, seq, cp)
					w.Block(dc, 1)
					tr.stashed = true
					stashes++
					rec.Class("stash:received=%v:acked=%v", tr.received, hadAck)
					break
				}
				switch {
				case hadAck:
					repeated++
					rec.Class("write-repeated:%s:%s", verOf(p), op.A)
				case !tr.real:
					never++
					rec.Class("write-never-sent-seq:%s", verOf(p))
				case !tr.received:
					premature++
					rec.Class("write-premature:%s", verOf(p))
				default:
					rec.Class("write-first:%s:%s", verOf(p), op.A)
				}
				cctx, write := w.Ctx(dc).CacheContext()
				var err error
				var ack1 []byte
				var ack2 channeltypesv2.Acknowledgement
				if p.V2 {
					hasReceipt := len(get(hostv2.PacketReceiptKey(p.P2.DestinationClient, seq))) > 0
					switch op.A {
					case "err":
						ack2 = channeltypesv2.NewAcknowledgement(channeltypesv2.ErrorAcknowledgement[:])
					case "alt":
						ack2 = channeltypesv2.NewAcknowledgement([]byte(fmt.Sprintf("alt-%d", i)))
					default:
						ack2 = channeltypesv2.NewAcknowledgement(sim.OKAck2(int(seq)))
					}
					err = w.App(dc).IBCKeeper.ChannelKeeperV2.WriteAcknowledgement(cctx, p.P2.DestinationClient, seq, ack2)
					if err == nil && !hasReceipt {
						vx.Violatef(t, rec, id, "v2-ack-written-without-receipt", "step %d: ChannelKeeperV2.WriteAcknowledgement accepted an acknowledgement for %s which has no receipt (stashed=%v)", i, tr.name(), tr.stashed)
					}
					if _, entry := w.App(dc).IBCKeeper.ChannelKeeperV2.GetAsyncPacket(w.Ctx(dc), p.P2.DestinationClient, seq); entry {
						// the write gets past the async-entry lookup and reaches the guards
						switch {
						case !hasReceipt:
							guardNoReceipt++
							rec.Class("v2-guard-reached:no-receipt")
						case hadAck:
							guardAckExists++
							rec.Class("v2-guard-reached:ack-exists")
						}
					}
				} else {
					pk := p.P1
					pk.Sequence = seq
					var ack exported.Acknowledgement
					switch op.A {
					case "err":
						ack = sim.ErrAck()
					case "alt":
						ack = channeltypes.NewResultAcknowledgement([]byte(fmt.Sprintf("alt-%d", i)))
					default:
						ack = sim.OKAck(int(seq))
					}
					ack1 = ack.Acknowledgement()
					err = w.App(dc).IBCKeeper.ChannelKeeper.WriteAcknowledgement(cctx, pk, ack)
				}
				if err == nil {
					write()
					w.Block(dc, 1)
					accepted++
					tr.writes++
					if hadAck {
						vx.Violatef(t, rec, id, "second-ack-write-accepted", "step %d: an acknowledgement write for %s was accepted although an acknowledgement was already stored", i, tr.name())
					}
					if tr.real {
						// what an honest relayer would now relay back
						if p.V2 {
							a := ack2
							p.Ack2 = &a
						} else {
							p.Ack1 = ack1
						}
					}
				} else {
					refused++
				}
			default:
				st := pktsim.Exec(w, i, op.Op)
				if st.Sent && st.Pkt != nil {
					track(st.Pkt, st.Pkt.Seq())
					if _, async := c11Script(st.Pkt); async {
						asyncSeen++
					}
				}
				isRecv := op.K == "recv" || (op.K == "replay" && st.HadTx && len(w.Msgs) > 0 && pktsim.MsgKind(w.Msgs[len(w.Msgs)-1].Msgs[0]) == "recv")
				if isRecv && st.Pkt != nil && st.HadTx && st.Res.OK && !sim.ResultIsNoop(st.Res) {
					tr := track(st.Pkt, st.Pkt.Seq())
					tr.received = true
					if sync, _ := c11Script(st.Pkt); sync {
						tr.writes++
						rec.Class("sync-recv:%s", verOf(st.Pkt))
					} else {
						rec.Class("async-recv:%s", verOf(st.Pkt))
					}
				}
			}

			// ---- invariants after every step, over every key ever touched
			for _, tr := range tracks {
				dc := w.DstChain(tr.pkt)
				cur := storeOf(dc)(tr.ackKey())
				switch {
				case tr.first == nil && len(cur) > 0:
					tr.first, tr.firstAt = append([]byte{}, cur...), i
				case tr.first != nil && !bytes.Equal(cur, tr.first):
					vx.Violatef(t, rec, id, "ack-commitment-changed", "step %d (%s): ack commitment of %s was %x since step %d and is now %x", i, op.K, tr.name(), tr.first, tr.firstAt, cur)
				}
				if tr.writes > 1 {
					vx.Violatef(t, rec, id, "second-ack-write-accepted", "step %d (%s): %d acknowledgement writes were accepted for %s", i, op.K, tr.writes, tr.name())
				}
				// async v2 packets: retrievable from receive until the ack is written, absent afterwards
				if _, async := c11Script(tr.pkt); tr.pkt.V2 && tr.real && async && !tr.stashed {
					got, ok := w.App(dc).IBCKeeper.ChannelKeeperV2.GetAsyncPacket(w.Ctx(dc), tr.pkt.P2.DestinationClient, tr.seq)
					switch {
					case tr.received && tr.first == nil:
						rec.Class("async-v2-pending-observed")
						if !ok || !sameProto(&got, &tr.pkt.P2) {
							vx.Violatef(t, rec, id, "async-packet-not-retrievable", "step %d (%s): %s was received asynchronously and has no acknowledgement yet, but GetAsyncPacket returned found=%v equal=%v", i, op.K, tr.name(), ok, ok && sameProto(&got, &tr.pkt.P2))
						}
					case tr.received && tr.first != nil:
						rec.Class("async-v2-acked-observed")
						if ok {
							vx.Violatef(t, rec, id, "async-packet-not-removed", "step %d (%s): the acknowledgement of %s was written at step %d but GetAsyncPacket still returns the packet", i, op.K, tr.name(), tr.firstAt)
						}
					}
				}
			}
		}
		rec.Add("packets", int64(len(w.Pkts)))
		rec.Add("async_packets_sent", int64(asyncSeen))
		rec.Add("app_ack_writes_accepted", int64(accepted))
		rec.Add("app_ack_writes_refused", int64(refused))
		rec.Add("repeated_writes", int64(repeated))
		rec.Add("premature_writes", int64(premature))
		rec.Add("never_sent_seq_writes", int64(never))
		rec.Add("stashes", int64(stashes))
		rec.Add("v2_receipt_guard_reached", int64(guardNoReceipt))
		rec.Add("v2_existing_ack_guard_reached", int64(guardAckExists))
		rec.NonTrivialIf(repeated+premature >= 1 && accepted >= 1)
	}
}

func verOf(p *sim.Pkt) string {
	if p.V2 {
		return "v2"
	}
	return "v1"
}

func sameProto(a, b proto.Message) bool {
	x, err1 := proto.Marshal(a)
	y, err2 := proto.Marshal(b)
	return err1 == nil && err2 == nil && bytes.Equal(x, y)
}

func TestC11(t *testing.T) {
	vx.Check(t, vx.Prop[c11Case]{
		ID:        "C11",
		Rule:      "8..26 ops over v1-unordered, v1-ordered, v2 and v2-alias links: send (receiver script async x3 | ok | err, sometimes 2 v2 payloads), recv, ack relay, replay, block, application ack write by direct keeper call (ok | different | error ack; own sequence or a never-sent one) and v2 async-entry stash; invariants checked after every op over every touched (dest, seq); non-trivial = >= 1 repeated or premature application write and >= 1 accepted application write; distinct by full history",
		MinNTFrac: 0.4,
		Gen:       genC11,
		Run:       runC11(t),
	})
}
