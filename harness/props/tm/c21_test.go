package tm

import (
	"testing"

	"pgregory.net/rapid"

	"github.com/cosmos/ibc-go/v11/modules/core/exported"

	"github.com/cosmos/ibc-go/v11/modules/apps/callbacks/verifx/vx"
)

// C21: a Tendermint client's status is Frozen if it has been frozen; otherwise Expired if
// its latest consensus state is missing or older than the trusting period; otherwise Active.
// Its latest height never decreases. No update, proof verification, packet send, or
// connection / channel handshake step succeeds through a client that is not Active.
//
// Model (engine_test.go): frozen flag set by accepted conflicting headers / time-violating
// headers / conflicting misbehaviour and cleared by recovery; latest height = highest
// accepted height or the recovered substitute's height; status computed from these, the raw
// store and the block time.

func runC21(outer *testing.T) func(t rapid.TB, c Case, rec *vx.Case) {
	return func(t rapid.TB, c Case, rec *vx.Case) {
		const id = "C21"
		e := newEnv(outer, t, c, true)
		usesNonActive, nearExpiry := 0, 0
		okBy, failBy := map[string]int{}, map[string]int{}
		checkStatus := func(where string) {
			now := e.d.Now()
			got := e.d.Status(e.id)
			want := e.modelStatus(e.cur, e.curTs, now)
			if got != want {
				vx.Violatef(t, rec, id, "status-mismatch", "status is %s, the model says %s (frozen=%v latest=%s now=%d latestTs=%d tp=%s); %s", got, want, e.frozen, e.latest, now.UnixNano(), e.curTs[e.latest], e.tp, where)
			}
			rec.Class("status-%s", got)
			if ts, ok := e.curTs[e.latest]; ok && !e.frozen {
				if d := now.UnixNano() - (ts + int64(e.tp)); d >= -1 && d <= 1 {
					nearExpiry++
					rec.Class("status-at-expiry%+d", d)
				}
			}
		}
		checkStatus("after create")
		for i, op := range c.Ops {
			st := e.exec(i, op)
			where := describe(st)
			// latest height never decreases
			if latestOf(st.PostCS).Less(latestOf(st.PreCS)) {
				vx.Violatef(t, rec, id, "latest-height-decreased", "latest height went from %s to %s; %s", latestOf(st.PreCS), latestOf(st.PostCS), where)
			}
			// gate: a use that succeeds happened while the model status was Active
			use, ok := "", false
			switch {
			case st.Kind == "use":
				use, ok = st.Use, st.UseOK
			case st.Hdr != nil && st.HadTx:
				use, ok = "update", st.OK
				if st.Kind == "misb" {
					use = "misbehaviour"
				}
			}
			if use != "" {
				if st.ModelStatusAtTx != exported.Active {
					usesNonActive++
					rec.Class("use-%s-while-%s", use, st.ModelStatusAtTx)
					if ok {
						vx.Violatef(t, rec, id, "use-through-nonactive-"+use, "%s succeeded while the client status was %s; %s", use, st.ModelStatusAtTx, where)
					}
				}
				if ok {
					okBy[use]++
				} else {
					failBy[use]++
				}
			}
			if st.Recovered {
				rec.Class("recovered")
			}
			checkStatus(where)
		}
		for k, v := range okBy {
			rec.Add("ok_"+k, int64(v))
		}
		for k, v := range failBy {
			rec.Add("fail_"+k, int64(v))
		}
		rec.Add("uses_while_not_active", int64(usesNonActive))
		rec.Add("status_queries_within_1ns_of_expiry", int64(nearExpiry))
		rec.NonTrivialIf(usesNonActive >= 1 || nearExpiry >= 1)
	}
}

var wC21 = weights{"tip": 7, "past": 2, "update": 1, "resubmit": 1, "conflict": 1, "misb": 1, "freeze": 1, "recover": 3, "time": 4, "jump": 4, "block": 1, "drop": 1,
	"verify": 3, "nverify": 2, "send2": 3, "conninit": 2, "chaninit": 2}

func TestC21(t *testing.T) {
	vx.Check(t, vx.Prop[Case]{
		ID:          "C21",
		Rule:        "virtual-chain histories mixing updates, misbehaviour/freezing, recovery, deletion of the latest consensus state, time advances and jumps to latestTs+trustingPeriod+{-1,0,+1}ns, and uses of the client (update, VerifyMembership/NonMembership with real proofs against a mirrored app hash, v2 MsgSendPacket, MsgConnectionOpenInit, MsgChannelOpenInit); non-trivial = a use attempted while the model status is not Active, or a status query within 1ns of expiry; distinct by full history",
		MinNTFrac:   0.4,
		Assumptions: []string{"counterparty chain V is virtual: the harness owns its validator keys (ed25519 from secret val-<i>) and signs headers itself", "recovery = ClientKeeper.RecoverClient (MsgRecoverClient after its authority check); upgrades and client genesis import are not exercised", "raw client store parsed by its documented key layout; stored protobuf values decoded with the app codec", "the \"drop\" operation (latest consensus state missing) is state injection: no transaction can delete the latest consensus state"},
		Gen:         func(t *rapid.T) Case { return genCase(t, wC21, 30, func(i, n int) int { return 5 }) },
		Run:         runC21(t),
	})
}
