package hs

import (
	"strings"
	"testing"

	"pgregory.net/rapid"

	connectiontypes "github.com/cosmos/ibc-go/v11/modules/core/03-connection/types"

	"github.com/cosmos/ibc-go/v11/modules/apps/callbacks/verifx/vx"
)

// C13 (pure part): version negotiation over generated version lists.
//
// Claimed (and nothing more): PickVersion(supported, counterparty) = v  =>  v is ONE version
// whose identifier occurs in both lists and whose feature set equals, as a set, the
// intersection of the feature sets of a supported entry and a counterparty entry carrying that
// identifier, and that set is not empty. With duplicate identifiers in a list "the" entry is
// ambiguous, so the oracle only asks that SOME pair of entries with that identifier explains
// the result (for duplicate-free lists this is the unique pair). GetFeatureSetIntersection is
// compared with the set intersection in both directions (that is its definition), and
// IsSupportedVersion(list, p) = true => some entry has p's identifier and a superset of p's
// non-empty features (this is the acceptance test ConnOpenAck applies to the negotiated version).
// Failures of PickVersion are never violations; "a non-empty pair existed but PickVersion
// failed" is measured as a health metric only.

type pver struct {
	ID string
	F  []string
}

func (p pver) v() *connectiontypes.Version { return connectiontypes.NewVersion(p.ID, p.F) }

func toVersions(l []pver) []*connectiontypes.Version {
	out := make([]*connectiontypes.Version, 0, len(l))
	for _, p := range l {
		out = append(out, p.v())
	}
	return out
}

type c13PureCase struct {
	S          []pver // supported list (ignored when UseDefault)
	C          []pver // counterparty list
	P          pver   // proposed version for IsSupportedVersion
	UseDefault bool   // supported = GetCompatibleVersions() (the production value)
}

var pureIDs = []string{"1", "1", "2", "3", "", " ", "1 "}
var pureFeatures = []string{"ORDER_ORDERED", "ORDER_UNORDERED", "X", "ORDER_ORDERED", "ORDER_UNORDERED", "", " "}

func genPver(t *rapid.T) pver {
	p := pver{ID: rapid.SampledFrom(pureIDs).Draw(t, "id")}
	n := rapid.IntRange(0, 4).Draw(t, "nf")
	if rapid.IntRange(0, 60).Draw(t, "long") == 60 {
		n = rapid.SampledFrom([]int{99, 100, 101}).Draw(t, "nfLong")
	}
	for i := 0; i < n; i++ {
		p.F = append(p.F, rapid.SampledFrom(pureFeatures).Draw(t, "f"))
	}
	return p
}

func genPverList(t *rapid.T, max int) []pver {
	n := rapid.IntRange(0, max).Draw(t, "nv")
	var out []pver
	for i := 0; i < n; i++ {
		out = append(out, genPver(t))
	}
	return out
}

func genC13Pure(t *rapid.T) c13PureCase {
	c := c13PureCase{UseDefault: rapid.IntRange(0, 2).Draw(t, "default") == 0}
	if !c.UseDefault {
		c.S = genPverList(t, 4)
	}
	c.C = genPverList(t, 5)
	c.P = genPver(t)
	// often derive the proposal from an existing entry so that acceptance is exercised
	if len(c.C) > 0 && rapid.IntRange(0, 1).Draw(t, "derive") == 0 {
		src := c.C[rapid.IntRange(0, len(c.C)-1).Draw(t, "deriveFrom")]
		c.P.ID = src.ID
		if rapid.IntRange(0, 1).Draw(t, "subset") == 0 && len(src.F) > 0 {
			c.P.F = append([]string(nil), src.F[:rapid.IntRange(0, len(src.F)).Draw(t, "subsetN")]...)
		}
	}
	return c
}

func fset(f []string) map[string]bool {
	m := map[string]bool{}
	for _, x := range f {
		m[x] = true
	}
	return m
}

func interSet(a, b []string) map[string]bool {
	bs, out := fset(b), map[string]bool{}
	for _, x := range a {
		if bs[x] {
			out[x] = true
		}
	}
	return out
}

func setEq(a, b map[string]bool) bool {
	if len(a) != len(b) {
		return false
	}
	for k := range a {
		if !b[k] {
			return false
		}
	}
	return true
}

func hasDupIDs(l []pver) bool {
	seen := map[string]bool{}
	for _, p := range l {
		if seen[p.ID] {
			return true
		}
		seen[p.ID] = true
	}
	return false
}

// explains reports whether some (supported, counterparty) pair with identifier id has exactly
// the feature-set intersection `got`; anyNonEmpty reports whether any same-id pair has a
// non-empty intersection at all.
func explains(s, c []pver, id string, got map[string]bool) bool {
	for _, a := range s {
		for _, b := range c {
			if a.ID == id && b.ID == id && setEq(interSet(a.F, b.F), got) {
				return true
			}
		}
	}
	return false
}

func anyNonEmptyPair(s, c []pver) bool {
	for _, a := range s {
		for _, b := range c {
			if a.ID == b.ID && len(interSet(a.F, b.F)) > 0 {
				return true
			}
		}
	}
	return false
}

func fromVersions(l []*connectiontypes.Version) []pver {
	var out []pver
	for _, v := range l {
		out = append(out, pver{ID: v.Identifier, F: v.Features})
	}
	return out
}

// checkPick is the version-negotiation oracle (shared with the stateful part).
func checkPick(t rapid.TB, rec *vx.Case, s, c []pver, v *connectiontypes.Version, where string) {
	const id = "C13"
	if v == nil {
		vx.Violatef(t, rec, id, "pick-nil-version", "%s: negotiation succeeded with a nil version; supported=%+v counterparty=%+v", where, s, c)
		return
	}
	got := fset(v.Features)
	inS, inC := false, false
	for _, a := range s {
		inS = inS || a.ID == v.Identifier
	}
	for _, b := range c {
		inC = inC || b.ID == v.Identifier
	}
	if !inS || !inC {
		vx.Violatef(t, rec, id, "pick-identifier-not-common", "%s: negotiated identifier %q is not supported by both sides; supported=%+v counterparty=%+v", where, v.Identifier, s, c)
		return
	}
	if len(got) == 0 {
		vx.Violatef(t, rec, id, "pick-empty-feature-set", "%s: negotiated version %q has an empty feature set; supported=%+v counterparty=%+v", where, v.Identifier, s, c)
		return
	}
	if !explains(s, c, v.Identifier, got) {
		vx.Violatef(t, rec, id, "pick-features-not-intersection", "%s: negotiated features %v are not the intersection of the feature sets for identifier %q; supported=%+v counterparty=%+v", where, v.Features, v.Identifier, s, c)
	}
}

func modelValid(p pver) bool {
	if strings.TrimSpace(p.ID) == "" || len(p.F) > 100 {
		return false
	}
	for _, f := range p.F {
		if strings.TrimSpace(f) == "" {
			return false
		}
	}
	return true
}

func runC13Pure(t rapid.TB, c c13PureCase, rec *vx.Case) {
	const id = "C13"
	s := c.S
	if c.UseDefault {
		s = fromVersions(connectiontypes.GetCompatibleVersions())
		rec.Class("supported=default")
	} else {
		rec.Class("supported=generated")
	}
	// ---- PickVersion
	var v *connectiontypes.Version
	var err error
	if pan, msg := vx.Recover(func() { v, err = connectiontypes.PickVersion(toVersions(s), toVersions(c.C)) }); pan {
		vx.Violatef(t, rec, id, "pick-panics", "PickVersion panicked: %s; supported=%+v counterparty=%+v", msg, s, c.C)
		return
	}
	picked := err == nil
	if picked {
		rec.Add("pick_ok", 1)
		checkPick(t, rec, s, c.C, v, "PickVersion")
	} else {
		rec.Add("pick_failed", 1)
		if anyNonEmptyPair(s, c.C) {
			rec.Add("pick_failed_but_nonempty_pair_exists", 1)
			rec.Class("pick-failed-though-pair-exists")
		}
	}
	if hasDupIDs(s) || hasDupIDs(c.C) {
		rec.Class("duplicate-identifiers")
	}
	// ---- GetFeatureSetIntersection on every pair of entries (definition of intersection)
	for _, a := range s {
		for _, b := range c.C {
			got := connectiontypes.GetFeatureSetIntersection(a.F, b.F)
			if !setEq(fset(got), interSet(a.F, b.F)) {
				vx.Violatef(t, rec, id, "intersection-wrong", "GetFeatureSetIntersection(%v, %v) = %v is not the set intersection", a.F, b.F, got)
			}
			rec.Add("intersections_checked", 1)
		}
	}
	// ---- IsSupportedVersion (acceptance test for the version chosen by the counterparty)
	for _, list := range [][]pver{s, c.C} {
		if connectiontypes.IsSupportedVersion(toVersions(list), c.P.v()) {
			rec.Add("supported_true", 1)
			ok := false
			for _, e := range list {
				if e.ID == c.P.ID && len(c.P.F) > 0 && setEq(interSet(c.P.F, e.F), fset(c.P.F)) {
					ok = true
				}
			}
			if !ok {
				vx.Violatef(t, rec, id, "supported-version-not-in-list", "IsSupportedVersion(%+v, %+v) = true although no entry has that identifier with a superset of its non-empty features", list, c.P)
			}
		} else {
			rec.Add("supported_false", 1)
		}
	}
	// ---- ValidateVersion: health metric only (the property does not speak about it)
	for _, p := range append(append([]pver{c.P}, s...), c.C...) {
		if (connectiontypes.ValidateVersion(p.v()) == nil) != modelValid(p) {
			rec.Add("validate_differs_from_model", 1)
		}
	}
	// ---- non-triviality: >= 3 entries overall and a real intersection was computed, or the
	// identifiers overlap but negotiation failed
	nt := false
	if len(s)+len(c.C) >= 3 {
		if picked {
			for _, a := range s {
				for _, b := range c.C {
					if a.ID == v.Identifier && b.ID == v.Identifier && setEq(interSet(a.F, b.F), fset(v.Features)) &&
						(len(fset(v.Features)) < len(fset(a.F)) || len(fset(v.Features)) < len(fset(b.F))) {
						nt = true
					}
				}
			}
			if nt {
				rec.Class("picked-proper-intersection")
			} else {
				rec.Class("picked-full-set")
			}
		} else {
			for _, a := range s {
				for _, b := range c.C {
					if a.ID == b.ID {
						nt = true
					}
				}
			}
			if nt {
				rec.Class("failed-with-common-identifier")
			} else {
				rec.Class("failed-no-common-identifier")
			}
		}
	} else {
		rec.Class("tiny-lists")
	}
	rec.NonTrivialIf(nt)
}

func TestC13Pure(t *testing.T) {
	vx.Check(t, vx.Prop[c13PureCase]{
		ID: "C13",
		Rule: "supported list = GetCompatibleVersions() (1/3) or generated (0-4 entries), counterparty list 0-5 entries; identifiers from {1,2,3,blank,space,'1 '}, feature lists 0-4 (rarely 99-101) draws " +
			"from {ORDER_ORDERED, ORDER_UNORDERED, X, blank} with duplicates and permutations; non-trivial = >=3 entries overall and either a proper feature intersection was negotiated or negotiation failed although an identifier is common; distinct by full case",
		MinNTFrac: 0.15,
		Gen:       genC13Pure,
		Run:       runC13Pure,
	})
}
