package tmv

// C24: a Tendermint header is accepted only if its trusted validator set hashes to the
// trusted consensus state's next-validators hash, it is in the same revision and strictly
// above the trusted height, within the trusting period and clock drift, and its commit
// carries > 2/3 of its own set and >= trust level of the trusted set (adjacent: own hash ==
// trusted next hash). Misbehaviour freezes only if both headers pass and genuinely conflict.
//
// Chain A is a real simapp chain; the counterparty V is virtual (vchain_test.go). Every
// acceptance decision is a MsgUpdateClient transaction through FinalizeBlock/Commit.

import (
	"fmt"
	"strings"
	"testing"
	"time"

	"pgregory.net/rapid"

	clienttypes "github.com/cosmos/ibc-go/v11/modules/core/02-client/types"
	commitmenttypes "github.com/cosmos/ibc-go/v11/modules/core/23-commitment/types"
	"github.com/cosmos/ibc-go/v11/modules/core/exported"
	ibctm "github.com/cosmos/ibc-go/v11/modules/light-clients/07-tendermint"
	ibctesting "github.com/cosmos/ibc-go/v11/testing"

	"github.com/cosmos/ibc-go/v11/modules/apps/callbacks/verifx/sim"
	"github.com/cosmos/ibc-go/v11/modules/apps/callbacks/verifx/vx"
)

// ---- scenario: the honest history of V and the client A holds -------------------------

type oldRev struct {
	H   uint64 `json:"h"`   // consensus state written directly at {Rev-1, H} (a pre-upgrade state)
	Set int    `json:"set"` // its next validators are Sets[Set]
}

type scn struct {
	Rev       uint64  `json:"rev"`
	TrustN    uint64  `json:"tn"`
	TrustD    uint64  `json:"tdn"`
	TrustingS int64   `json:"trusting_s"`
	DriftS    int64   `json:"drift_s"`
	AgeS      int64   `json:"age_s"` // the initial block is this old when the client is created
	StepS     int64   `json:"step_s"`
	Init      int64   `json:"init"`
	Sets      []vSet  `json:"sets"`
	Bounds    []int64 `json:"bounds"` // validator set of height h is Sets[#{b in Bounds : b <= h}]
	Updates   []int64 `json:"updates"`
	Old       *oldRev `json:"old,omitempty"`
}

func (s scn) chain() string { return fmt.Sprintf("vchain-%d", s.Rev) }

func (s scn) setAt(h int64) vSet {
	i := 0
	for _, b := range s.Bounds {
		if b <= h {
			i++
		}
	}
	if i >= len(s.Sets) {
		i = len(s.Sets) - 1
	}
	return s.Sets[i]
}

func (s scn) td(h int64) int64 { return (h - s.Init) * s.StepS * int64(time.Second) }

func (s scn) stored() []int64 { return append([]int64{s.Init}, s.Updates...) }

func (s scn) honest(h, trusted int64) hdrSpec {
	return hdrSpec{Chain: s.chain(), H: h, TrustRev: s.Rev, TrustH: uint64(trusted), Own: s.setAt(h).clone(), Next: s.setAt(h + 1).clone(),
		TVals: s.setAt(trusted + 1).clone(), TMode: "chain", TD: s.td(h)}
}

func (s scn) params() cliParams {
	return cliParams{ChainID: s.chain(), TrustN: s.TrustN, TrustD: s.TrustD,
		Trusting: time.Duration(s.TrustingS) * time.Second, Drift: time.Duration(s.DriftS) * time.Second}
}

type c24Probe struct {
	Class    string   `json:"class"`
	Scn      scn      `json:"scn"`
	Kind     string   `json:"kind"` // header | misb
	H1       hdrSpec  `json:"h1"`
	H2       *hdrSpec `json:"h2,omitempty"`
	ExpireD  *int64   `json:"expire_d,omitempty"` // advance the clock until now - (trusted timestamp + trusting period) = this (ns)
	ExpireOn int      `json:"expire_on,omitempty"`
}

type c24Case struct {
	Probes []c24Probe `json:"probes"`
}

// ---- runner -----------------------------------------------------------------------------

func signer(w *sim.World) string { return w.Addr(0, 0).String() }

func createVClient(w *sim.World, sc scn, base time.Time) string {
	p := sc.params()
	cs := ibctm.NewClientState(sc.chain(), ibctm.Fraction{Numerator: sc.TrustN, Denominator: sc.TrustD}, p.Trusting, 3*p.Trusting, p.Drift,
		clienttypes.NewHeight(sc.Rev, uint64(sc.Init)), commitmenttypes.GetSDKSpecs(), ibctesting.UpgradePath)
	cons := ibctm.NewConsensusState(base, commitmenttypes.NewMerkleRoot(sha("app", sc.Init, 0)), sc.setAt(sc.Init+1).hash())
	return createClient(w, cs, cons)
}

func createClient(w *sim.World, cs exported.ClientState, cons exported.ConsensusState) string {
	id := clienttypes.FormatClientIdentifier(cs.ClientType(), w.App(0).IBCKeeper.ClientKeeper.GetNextClientSequence(w.Ctx(0)))
	msg, err := clienttypes.NewMsgCreateClient(cs, cons, signer(w))
	if err != nil {
		vx.Harnessf("NewMsgCreateClient: %v", err)
	}
	if res := w.Deliver(0, 0, msg); !res.OK {
		vx.Harnessf("create client failed: %v", res.Err)
	}
	if _, ok := w.App(0).IBCKeeper.ClientKeeper.GetClientState(w.Ctx(0), id); !ok {
		vx.Harnessf("client %s not found after creation", id)
	}
	return id
}

func deliverClientMsg(w *sim.World, id string, m exported.ClientMessage) sim.TxResult {
	msg, err := clienttypes.NewMsgUpdateClient(id, m, signer(w))
	if err != nil {
		vx.Harnessf("NewMsgUpdateClient: %v", err)
	}
	return w.Deliver(0, 0, msg)
}

func tmClientState(w *sim.World, id string) *ibctm.ClientState {
	cs, ok := w.App(0).IBCKeeper.ClientKeeper.GetClientState(w.Ctx(0), id)
	if !ok {
		vx.Harnessf("client %s not found", id)
	}
	tm, ok := cs.(*ibctm.ClientState)
	if !ok {
		vx.Harnessf("client %s is %T", id, cs)
	}
	return tm
}

func trustedAt(w *sim.World, id string, h clienttypes.Height) trustedState {
	cs, ok := w.App(0).IBCKeeper.ClientKeeper.GetClientConsensusState(w.Ctx(0), id, h)
	if !ok {
		return trustedState{}
	}
	tm, ok := cs.(*ibctm.ConsensusState)
	if !ok {
		return trustedState{}
	}
	return trustedState{Found: true, TS: tm.Timestamp, NextVals: tm.NextValidatorsHash}
}

func storedStates(w *sim.World, id string) []storedCons {
	store := w.App(0).IBCKeeper.ClientKeeper.ClientStore(w.Ctx(0), id)
	var out []storedCons
	ibctm.IterateConsensusStateAscending(store, func(h exported.Height) bool {
		hh := clienttypes.NewHeight(h.GetRevisionNumber(), h.GetRevisionHeight())
		if cs, ok := ibctm.GetConsensusState(store, w.App(0).AppCodec(), hh); ok {
			out = append(out, storedCons{H: hh, CS: cs})
		}
		return false
	})
	return out
}

type c24Tally struct{ mutated, controlsOK int }

func isControl(class string) bool { return strings.HasPrefix(class, "honest") }

func runC24Probe(t rapid.TB, w *sim.World, idx int, p c24Probe, rec *vx.Case, tally *c24Tally) {
	const id = "C24"
	sc := p.Scn
	par := sc.params()
	base := w.Coord.CurrentTime.Add(-time.Duration(sc.AgeS) * time.Second)
	client := createVClient(w, sc, base)
	env := func() buildEnv {
		return buildEnv{base: base, now: w.Coord.CurrentTime, drift: par.Drift, trustedTS: func(h clienttypes.Height) (time.Time, bool) {
			tr := trustedAt(w, client, h)
			return tr.TS, tr.Found
		}}
	}
	latest := sc.Init
	for _, u := range sc.Updates {
		if res := deliverClientMsg(w, client, buildHeader(sc.honest(u, latest), env())); res.OK {
			latest = u
		} else {
			rec.Add("setup_update_rejected", 1)
		}
	}
	if sc.Old != nil {
		old := ibctm.NewConsensusState(base.Add(-10*time.Second), commitmenttypes.NewMerkleRoot(sha("old-app")), sc.Sets[sc.Old.Set%len(sc.Sets)].hash())
		w.App(0).IBCKeeper.ClientKeeper.SetClientConsensusState(w.Ctx(0), client, clienttypes.NewHeight(sc.Rev-1, sc.Old.H), old)
		w.Block(0, 1)
	}
	if p.ExpireD != nil {
		on := p.H1
		if p.ExpireOn == 2 && p.H2 != nil {
			on = *p.H2
		}
		if tr := trustedAt(w, client, clienttypes.NewHeight(on.TrustRev, on.TrustH)); tr.Found {
			target := tr.TS.Add(par.Trusting).Add(time.Duration(*p.ExpireD))
			if d := target.Sub(w.Coord.CurrentTime); d > 0 {
				w.AdvanceTime(d)
			}
		}
	}

	now := w.Coord.CurrentTime
	e := env()
	misb := p.Kind == "misb"
	h1 := buildHeader(p.H1, e)
	v1 := modelCheck(h1, par, trustedAt(w, client, h1.TrustedHeight), now, misb)
	stored := storedStates(w, client)
	status := w.App(0).IBCKeeper.ClientKeeper.GetClientStatus(w.Ctx(0), client)
	if status != exported.Active {
		rec.Add("probe_on_inactive_client", 1)
	}
	if tmClientState(w, client).FrozenHeight.IsZero() == false {
		vx.Harnessf("client frozen before the probe")
	}

	if !isControl(p.Class) {
		tally.mutated++
	}
	rec.Class("%s", p.Class)

	if !misb {
		res := deliverClientMsg(w, client, h1)
		frozen := !tmClientState(w, client).FrozenHeight.IsZero()
		if res.OK {
			rec.Add("acc/"+p.Class, 1)
			rec.Add("accepted", 1)
			if !v1.OK {
				vx.Violatef(t, rec, id, "accept-"+v1.Why, "probe %d class %s: header at %s (trusted %s) was accepted although the statement forbids it: %s (own power %s/%s, trusted power %s/%s, trust level %d/%d, adjacent=%v)",
					idx, p.Class, v1.Height, h1.TrustedHeight, v1.Why, v1.OwnPow, v1.OwnTot, v1.TPow, v1.TTot, par.TrustN, par.TrustD, v1.Adjacent)
			}
			if frozen {
				rec.Add("frozen_by_header", 1)
				if !modelConflictsWithStore(h1, v1, stored) {
					vx.Violatef(t, rec, id, "header-freeze-without-conflict", "probe %d class %s: accepted header at %s froze the client without contradicting a stored consensus state", idx, p.Class, v1.Height)
				}
			}
		} else {
			rec.Add("rej/"+p.Class, 1)
			rec.Add("rejected", 1)
			if v1.OK {
				rec.Add("model_ok_but_rejected", 1)
				rec.Add("mokrej/"+p.Class, 1)
			}
			if frozen {
				vx.Violatef(t, rec, id, "freeze-by-failed-tx", "probe %d class %s: failed update froze the client", idx, p.Class)
			}
			if isControl(p.Class) {
				vx.Harnessf("control probe %d class %s rejected: %v", idx, p.Class, res.Err)
			}
		}
		if isControl(p.Class) && res.OK {
			tally.controlsOK++
			rec.Add("controls_accepted", 1)
		}
		return
	}

	h2 := buildHeader(*p.H2, e)
	v2 := modelCheck(h2, par, trustedAt(w, client, h2.TrustedHeight), now, true)
	res := deliverClientMsg(w, client, ibctm.NewMisbehaviour(client, h1, h2))
	frozen := !tmClientState(w, client).FrozenHeight.IsZero()
	conflict := modelConflict(v1, v2)
	switch {
	case frozen:
		rec.Add("acc/"+p.Class, 1)
		rec.Add("misb_frozen", 1)
		if !v1.OK {
			vx.Violatef(t, rec, id, "freeze-h1-"+v1.Why, "probe %d class %s: misbehaviour froze the client although Header1 fails: %s", idx, p.Class, v1.Why)
		}
		if !v2.OK {
			vx.Violatef(t, rec, id, "freeze-h2-"+v2.Why, "probe %d class %s: misbehaviour froze the client although Header2 fails: %s (own %s/%s trusted %s/%s)", idx, p.Class, v2.Why, v2.OwnPow, v2.OwnTot, v2.TPow, v2.TTot)
		}
		if !conflict {
			vx.Violatef(t, rec, id, "freeze-without-conflict", "probe %d class %s: misbehaviour froze the client although %s and %s do not conflict", idx, p.Class, v1.Height, v2.Height)
		}
		// informational: frozen on headers that would not be accepted as updates (the statement's
		// "these checks" read literally); counted, not judged — see DESIGN §5 C24 O.
		for i, h := range []*ibctm.Header{h1, h2} {
			if s := modelCheck(h, par, trustedAt0(stored, w, client, h.TrustedHeight), now, false); !s.OK {
				rec.Add(fmt.Sprintf("frozen_outside_update_model/h%d-%s", i+1, s.Why), 1)
			}
		}
	default:
		rec.Add("rej/"+p.Class, 1)
		rec.Add("misb_not_frozen", 1)
		if v1.OK && v2.OK && conflict {
			rec.Add("model_ok_but_not_frozen", 1)
		}
	}
	_ = res
}

// trustedAt0 reads the trusted state as it was BEFORE the misbehaviour tx (consensus states
// are not touched by a freeze, so the current store is the same).
func trustedAt0(_ []storedCons, w *sim.World, client string, h clienttypes.Height) trustedState {
	return trustedAt(w, client, h)
}

func runC24(outer *testing.T) func(t rapid.TB, c c24Case, rec *vx.Case) {
	return func(t rapid.TB, c c24Case, rec *vx.Case) {
		w := sim.NewWorld(outer, 1, nil)
		var tally c24Tally
		for i, p := range c.Probes {
			runC24Probe(t, w, i, p, rec, &tally)
		}
		rec.Add("probes", int64(len(c.Probes)))
		rec.NonTrivialIf(tally.mutated >= 1)
	}
}

func TestC24(t *testing.T) {
	vx.Check(t, vx.Prop[c24Case]{
		ID: "C24",
		Rule: "each case = 10 probes of consecutive mutation classes (random start) against fresh 07-tendermint clients of a virtual chain on one real chain; " +
			"every probe is a MsgUpdateClient tx (header or misbehaviour); non-trivial = the case holds >= 1 mutated / threshold-neighbourhood probe " +
			"(class not honest-*); distinctness keyed on the full case JSON; acc/<class> and rej/<class> metrics show both outcomes per class",
		MinNTFrac: 0.9,
		Assumptions: []string{
			"cometbft header/validator-set hashing, canonical vote encoding and ed25519 verification are trusted building blocks of the reference",
			"headers inside a Misbehaviour are judged by the misbehaviour conjuncts (trusted set, trusted state present/below/unexpired, >2/3 own, >= trust level of trusted); same-revision, clock-drift and adjacent-hash conjuncts are counted (frozen_outside_update_model/*) but not required, following DESIGN §5 C24",
			"equalities (trusting period, clock drift, trust level, trusted time) are tolerated by the reference",
		},
		Gen: genC24, Run: runC24(t)})
}
