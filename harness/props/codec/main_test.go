package codec

import (
	"os"
	"path/filepath"
	"testing"

	"github.com/cosmos/ibc-go/v11/modules/apps/callbacks/verifx/vx"
)

func TestMain(m *testing.M) {
	// the driver passes the known-findings file to rapid tests through VERIF_KNOWN but not
	// to native fuzz runs; fall back to the framework's file so both see the same list
	if os.Getenv("VERIF_KNOWN") == "" {
		_ = os.Setenv("VERIF_KNOWN", filepath.Join(pkgDir(), "..", "..", "..", "known_findings.json"))
	}
	vx.Main(m)
}
